"""Reference interpreter for tally's rule-expression language.

Written from the user-facing reference (`tally reference`, src/tally/commands/reference.py) and the
text of property C04 - it shares no code with tally.  It interprets a Python `ast` tree produced by the
standard `ast.parse` (not by tally's parser).

Documented meaning implemented here:
  * and / or / not are Boolean, evaluated left to right with short-circuit; the result is True/False
  * a comparison chain a OP1 b OP2 c is (a OP1 b) and (b OP2 c), each operand evaluated once, left to right,
    stopping at the first false link
  * ==, != on two strings and `in` / `not in` with a string on the right ignore letter case
  * a date compared with a string: the string is an ISO date
  * month/year/day/weekday are those of the date (0 when there is no date; weekday Monday = 0)
  * x / 0 and x % 0 give 0
  * contains, startswith, anyof, normalized, regex ignore letter case; one-argument forms read the description
  * extraction / transform functions as in the reference tables
  * comprehensions, any/all/sum/len/next/min/max, subscripts and := behave as the same Python construct;
    names are case-insensitive; lookup order: comprehension/walrus scope, user variables, transaction
    primitives, supplemental sources
"""
import ast
import re
from datetime import date as _date


class RefError(Exception):
    """The expression has no value (the reference calls this an expression error)."""


def _norm(s):
    return re.sub(r"[\s\-'.*]+", '', s.upper())


class Ctx:
    def __init__(self, description='', amount=0, date=None, field=None, source=None, location=None,
                 variables=None, data_sources=None):
        self.description = description
        self.amount = amount
        self.date = date
        self.field = field
        self.source = source or ''
        self.location = location or ''
        self.variables = variables or {}
        self.data_sources = data_sources or {}
        self.scope = {}

    @classmethod
    def from_txn(cls, txn, variables=None, data_sources=None):
        return cls(description=txn.get('description', txn.get('raw_description', '')), amount=txn.get('amount', 0.0),
                   date=txn.get('date'), field=txn.get('field'), source=txn.get('source'),
                   location=txn.get('location'), variables=variables, data_sources=data_sources)


def ref_eval_src(src, txn, variables=None, data_sources=None, values=None):
    tree = ast.parse(src, mode='eval')
    if values:
        for node in ast.walk(tree):
            if isinstance(node, ast.Constant) and not isinstance(node.value, bool) \
                    and isinstance(node.value, (str, int, float)) and node.value in values:
                node.value = values[node.value]
    try:
        return ev(tree.body, Ctx.from_txn(txn, variables, data_sources))
    except (ArithmeticError, RecursionError):
        # e.g. round(inf): no value => expression error
        raise RefError('arithmetic')


def _txn_attr(c, name):
    name = name.lower()
    if name == 'description':
        return c.description
    if name == 'amount':
        return c.amount
    if name == 'date':
        return c.date
    if name == 'source':
        return c.source
    if name == 'location':
        return c.location
    if name == 'month':
        return c.date.month if c.date else 0
    if name == 'year':
        return c.date.year if c.date else 0
    if name == 'day':
        return c.date.day if c.date else 0
    if name == 'weekday':
        return c.date.weekday() if c.date else 0
    raise RefError('txn.' + name)


def _cmp(op, left, right):
    if isinstance(left, _date) and isinstance(right, str):
        try:
            right = _date.fromisoformat(right)
        except ValueError:
            raise RefError('bad date')
    elif isinstance(left, str) and isinstance(right, _date):
        try:
            left = _date.fromisoformat(left)
        except ValueError:
            raise RefError('bad date')
    both_str = isinstance(left, str) and isinstance(right, str)
    try:
        if isinstance(op, ast.Eq):
            res = (left.lower() == right.lower()) if both_str else (left == right)
        elif isinstance(op, ast.NotEq):
            res = (left.lower() != right.lower()) if both_str else (left != right)
        elif isinstance(op, ast.Lt):
            res = left < right
        elif isinstance(op, ast.LtE):
            res = left <= right
        elif isinstance(op, ast.Gt):
            res = left > right
        elif isinstance(op, ast.GtE):
            res = left >= right
        elif isinstance(op, (ast.In, ast.NotIn)):
            if isinstance(right, str) and isinstance(left, str):
                r = left.upper() in right.upper()
            else:
                r = left in right
            res = r if isinstance(op, ast.In) else (not r)
        else:
            raise RefError('operator')
    except TypeError:
        raise RefError('type')
    return res, right


def ev(n, c):
    if isinstance(n, ast.Constant):
        return n.value
    if isinstance(n, ast.Name):
        name = n.id.lower()
        if name in c.scope:
            return c.scope[name]
        if name in c.variables:
            return c.variables[name]
        if name in ('description', 'amount', 'date', 'month', 'year', 'day', 'weekday', 'source'):
            return _txn_attr(c, name)
        if name == 'true':
            return True
        if name == 'false':
            return False
        if name in c.data_sources:
            return c.data_sources[name]
        raise RefError('unknown name ' + name)
    if isinstance(n, ast.BoolOp):
        if isinstance(n.op, ast.And):
            for v in n.values:
                if not ev(v, c):
                    return False
            return True
        for v in n.values:
            if ev(v, c):
                return True
        return False
    if isinstance(n, ast.UnaryOp):
        v = ev(n.operand, c)
        try:
            if isinstance(n.op, ast.Not):
                return not v
            if isinstance(n.op, ast.USub):
                return -v
        except TypeError:
            raise RefError('type')
        raise RefError('unary')
    if isinstance(n, ast.BinOp):
        a = ev(n.left, c)
        b = ev(n.right, c)
        try:
            if isinstance(n.op, ast.Add):
                return a + b
            if isinstance(n.op, ast.Sub):
                return a - b
            if isinstance(n.op, ast.Mult):
                return a * b
            if isinstance(n.op, ast.Div):
                return 0 if b == 0 else a / b
            if isinstance(n.op, ast.Mod):
                return 0 if b == 0 else a % b
        except (TypeError, ValueError):
            raise RefError('type')
        raise RefError('binop')
    if isinstance(n, ast.Compare):
        left = ev(n.left, c)
        for op, comp in zip(n.ops, n.comparators):
            right = ev(comp, c)
            res, right = _cmp(op, left, right)
            if not res:
                return False
            left = right
        return True
    if isinstance(n, ast.IfExp):
        return ev(n.body, c) if ev(n.test, c) else ev(n.orelse, c)
    if isinstance(n, ast.Attribute):
        if isinstance(n.value, ast.Name) and n.value.id.lower() == 'txn':
            return _txn_attr(c, n.attr)
        if isinstance(n.value, ast.Name) and n.value.id.lower() == 'field':
            a = n.attr.lower()
            if a in ('description', 'amount', 'date', 'source', 'location'):
                return _txn_attr(c, a)
            if c.field is not None and a in c.field:
                return c.field[a]
            raise RefError('unknown field')
        v = ev(n.value, c)
        if isinstance(v, dict) and n.attr.lower() in v:
            return v[n.attr.lower()]
        raise RefError('attribute')
    if isinstance(n, ast.Subscript):
        v = ev(n.value, c)
        i = ev(n.slice, c)
        try:
            return v[i]
        except (IndexError, KeyError, TypeError):
            raise RefError('index')
    if isinstance(n, ast.NamedExpr):
        v = ev(n.value, c)
        c.scope[n.target.id.lower()] = v
        return v
    if isinstance(n, ast.ListComp):
        return list(_comp(n.generators, 0, n.elt, c))
    if isinstance(n, ast.GeneratorExp):
        return _comp(n.generators, 0, n.elt, c)
    if isinstance(n, ast.Call):
        return _call(n, c)
    raise RefError('node ' + type(n).__name__)


def _comp(gens, i, elt, c):
    if i >= len(gens):
        yield ev(elt, c)
        return
    g = gens[i]
    if not isinstance(g.target, ast.Name):
        raise RefError('target')
    var = g.target.id.lower()
    it = ev(g.iter, c)
    try:
        iterator = iter(it)
    except TypeError:
        raise RefError('not iterable')
    missing = object()
    for item in iterator:
        old = c.scope.get(var, missing)
        c.scope[var] = item
        try:
            if all(ev(cond, c) for cond in g.ifs):
                yield from _comp(gens, i + 1, elt, c)
        finally:
            if old is missing:
                c.scope.pop(var, None)
            else:
                c.scope[var] = old


def _ro_matching(a, b):
    """Number of matching characters in the Ratcliff/Obershelp sense: the longest common block (earliest in a, then earliest in b),
    then the same to its left and to its right.  Written out here; no difflib."""
    best = (0, 0, 0)
    for i in range(len(a)):
        for j in range(len(b)):
            k = 0
            while i + k < len(a) and j + k < len(b) and a[i + k] == b[j + k]:
                k += 1
            if k > best[2]:
                best = (i, j, k)
    i, j, k = best
    if k == 0:
        return 0
    return k + _ro_matching(a[:i], b[:j]) + _ro_matching(a[i + k:], b[j + k:])


def similarity(a, b):
    return 1.0 if not a and not b else 2.0 * _ro_matching(a, b) / (len(a) + len(b))


def fuzzy(text, pattern, threshold=0.80):
    """Documented meaning of fuzzy(): some stretch of the text as long as the pattern (the whole text when it is shorter) is at
    least `threshold` similar to the pattern, letter case ignored."""
    t, p = text.upper(), pattern.upper()
    if len(p) > len(t):
        return similarity(t, p) >= threshold
    return any(similarity(t[i:i + len(p)], p) >= threshold for i in range(len(t) - len(p) + 1))


def _text_pat(args, c, fname):
    if len(args) == 1:
        return c.description, args[0]
    if len(args) == 2:
        return args[0], args[1]
    raise RefError(fname + ' arity')


def _call(n, c):
    if isinstance(n.func, ast.Attribute):
        obj = ev(n.func.value, c)
        m = n.func.attr.lower()
        if isinstance(obj, str):
            args = n.args
            if m == 'lower':
                return obj.lower()
            if m == 'upper':
                return obj.upper()
            if m == 'strip':
                return obj.strip()
            try:
                if m == 'startswith' and len(args) == 1:
                    return obj.startswith(ev(args[0], c))
                if m == 'endswith' and len(args) == 1:
                    return obj.endswith(ev(args[0], c))
                if m == 'replace' and len(args) == 2:
                    return obj.replace(ev(args[0], c), ev(args[1], c))
            except TypeError:
                raise RefError('type')
        raise RefError('method')
    if not isinstance(n.func, ast.Name):
        raise RefError('call')
    f = n.func.id.lower()
    if f == 'exists':
        if len(n.args) != 1:
            raise RefError('exists arity')
        try:
            v = ev(n.args[0], c)
        except RefError:
            return False
        return bool(v and str(v).strip())
    try:
        if f == 'len' and len(n.args) == 1:
            return len(ev(n.args[0], c))
        if f == 'sum' and 1 <= len(n.args) <= 2:
            it = ev(n.args[0], c)
            start = ev(n.args[1], c) if len(n.args) == 2 else 0
            return sum(it, start)
        if f == 'any' and len(n.args) == 1:
            return any(ev(n.args[0], c))
        if f == 'all' and len(n.args) == 1:
            return all(ev(n.args[0], c))
        if f == 'next' and 1 <= len(n.args) <= 2:
            it = ev(n.args[0], c)
            if len(n.args) == 2:
                d = ev(n.args[1], c)
                return next(it, d)
            try:
                return next(it)
            except StopIteration:
                raise RefError('exhausted')
        if f in ('min', 'max') and len(n.args) >= 1:
            fn = min if f == 'min' else max
            if len(n.args) == 1:
                return fn(ev(n.args[0], c))
            return fn([ev(a, c) for a in n.args])
    except (TypeError, ValueError):
        raise RefError('type')
    if f in ('len', 'sum', 'any', 'all', 'next'):
        raise RefError(f + ' arity')
    args = [ev(a, c) for a in n.args]
    try:
        if f == 'abs' and len(args) == 1:
            return abs(args[0])
        if f == 'round':
            return round(*args)
        if f == 'contains':
            t, p = _text_pat(args, c, f)
            return p.upper() in t.upper()
        if f == 'startswith':
            t, p = _text_pat(args, c, f)
            return t.upper().startswith(p.upper())
        if f == 'anyof':
            d = c.description.upper()
            return any(p.upper() in d for p in args)
        if f == 'fuzzy':
            if len(args) == 1:
                return fuzzy(c.description, args[0])
            if len(args) == 2:
                return fuzzy(c.description, args[0], args[1]) if isinstance(args[1], (int, float)) else fuzzy(args[0], args[1])
            if len(args) == 3:
                return fuzzy(args[0], args[1], args[2])
            raise RefError('fuzzy arity')
        if f == 'normalized':
            t, p = _text_pat(args, c, f)
            return _norm(p) in _norm(t)
        if f == 'regex':
            t, p = _text_pat(args, c, f)
            return bool(re.search(p, t, re.IGNORECASE))
        if f == 'extract':
            t, p = _text_pat(args, c, f)
            mm = re.search(p, t, re.IGNORECASE)
            return mm.group(1) if (mm and mm.groups()) else ''
        if f == 'split':
            if len(args) == 2:
                t, dl, ix = c.description, args[0], args[1]
            elif len(args) == 3:
                t, dl, ix = args
            else:
                raise RefError('split arity')
            if not isinstance(ix, int):
                raise RefError('split index')
            parts = t.split(dl)
            return parts[ix].strip() if 0 <= ix < len(parts) else ''
        if f == 'substring':
            if len(args) == 2:
                t, a, b = c.description, args[0], args[1]
            elif len(args) == 3:
                t, a, b = args
            else:
                raise RefError('substring arity')
            if not isinstance(a, int) or not isinstance(b, int):
                raise RefError('substring ints')
            return t[a:b]
        if f == 'trim':
            if len(args) == 0:
                return c.description.strip()
            if len(args) == 1:
                return str(args[0]).strip()
            raise RefError('trim arity')
        if f == 'uppercase' and len(args) == 1:
            return str(args[0]).upper()
        if f == 'lowercase' and len(args) == 1:
            return str(args[0]).lower()
        if f == 'strip_prefix' and len(args) == 2:
            t, p = str(args[0]), str(args[1])
            return t[len(p):] if t.upper().startswith(p.upper()) else t
        if f == 'strip_suffix' and len(args) == 2:
            t, p = str(args[0]), str(args[1])
            return t[:len(t) - len(p)] if t.upper().endswith(p.upper()) else t
        if f == 'regex_replace' and len(args) == 3:
            return re.sub(str(args[1]), str(args[2]), str(args[0]), flags=re.IGNORECASE)
    except (TypeError, AttributeError, ValueError, re.error):
        raise RefError('type')
    raise RefError('unknown function ' + f)
