"""C02 - tags are the union over all matching rules; tag-only rules never categorize."""
import itertools
from engine.ob import use_engine
from engine.ob import Obligation, post, reset_tally_caches
from harness import sel

LEVEL = 'other'
EXPLANATION = ('Bounded symbolic execution (CrossHair + z3) of the real MerchantEngine.match (both modes) and of the '
               'legacy normalize_merchant loop with a symbolic truth vector, symbolic field/source text feeding dynamic '
               'tags and symbolic priorities, against an independent union oracle; neutrality of tag-only rules is '
               'checked by running the real engine with and without each tag-only rule inside the same path.')
FUNCTIONS = ['tally.merchant_engine.MerchantEngine.match', 'MerchantEngine._resolve_tags',
             'tally.merchant_utils.normalize_merchant (legacy loop)', 'tally.merchant_utils._resolve_dynamic_tags']
BOUNDS = 'N <= 3 rules (4 thorough); field/source text <= 2 ASCII chars; tag lists from a fixed family'
OUTSIDE = 'non-ASCII tags; list-valued dynamic tags; more than N rules'
STUBS = ['legacy-* obligations: tally.merchant_utils.re.search(<rule pattern>) returns a symbolic truth value']
TRUSTED = ['ast.parse literal -> Constant (truth injection)']
ASSUMPTIONS = ['truth value of each rule is arbitrary (truth-vector abstraction)']

# tag lists per rule position (K).  '{...}' are dynamic tags.
TAG_FAMILIES = [
    [['alpha'], ['Beta', ' gamma '], ['alpha', 'DELTA']],
    [['{field.k}', 'x'], ['{field.nope}', 'y', '{  }', ' ']],
    [['K', '{source}'], ['{source}', 'k']],
    [['{extract(field.k, "(A)")}'], ['t', '{field.k.lower()}']],
    [['{field.k}'], ['{source}']],
]


def dyn_value(tag, fk, src):
    """Independent reading of the documented dynamic tags used in the families."""
    inner = tag[1:-1].strip()
    if inner == 'field.k' or inner == 'field.k.lower()':
        return fk
    if inner == 'source':
        return src
    if inner == 'field.nope':
        return None
    if inner == 'extract(field.k, "(A)")':
        return 'A' if ('a' in fk.lower()) else ''
    if inner == '':
        return None
    raise AssertionError(inner)


def oracle_tags(tagsets, bs, fk, src):
    out = set()
    for tags, b in zip(tagsets, bs):
        if not b:
            continue
        for t in tags:
            t = t.strip()
            if not t:
                continue
            if t.startswith('{') and t.endswith('}'):
                v = dyn_value(t, fk, src)
                if v is None:
                    continue
                v = v.strip()
                if v:
                    if t[1:-1].strip().startswith('extract'):
                        # extract() returns the matched text as written in the field
                        i = fk.lower().index('a')
                        v = fk[i]
                    out.add(v.lower())
            else:
                out.add(t.lower())
    return out


def tags_union(n, mode, fam, cats):
    tagsets = TAG_FAMILIES[fam][:n]

    def ob(b0: bool, b1: bool, b2: bool, fk: str, src: str, p0: int) -> bool:
        """
        pre: len(fk) <= 2 and len(src) <= 1 and all(c in ' aB' for c in fk) and all(c in ' aB' for c in src)
        post: _
        """
        reset_tally_caches()
        if 'source' not in repr(tagsets):
            src = 'S'
        if 'field.k' not in repr(tagsets):
            fk = 'v'
        bs = [b0, b1, b2][:n]
        rules = sel.build_rules(n, cats, [False] * n, prios=[p0] + [50] * (n - 1), tagsets=tagsets)
        sel.inject_truth(rules, bs)
        txn = {'description': 'PROBE', 'amount': 3.0, 'field': {'k': fk}, 'source': src}
        res = sel.engine_for(rules, mode).match(txn)
        bsc = [bool(b) for b in bs]
        exp = oracle_tags(tagsets, bsc, fk, src)
        return post(res.tags == exp)
    return ob


def neutrality(n, mode, pos, subs_on_tagonly):
    """Removing the tag-only rule at `pos` never changes merchant/category/subcategory."""
    def ob(b0: bool, b1: bool, b2: bool, b3: bool, p0: int, p1: int, p2: int, p3: int) -> bool:
        """
        post: _
        """
        reset_tally_caches()
        bs = [b0, b1, b2, b3][:n]
        ps = [p0, p1, p2, p3][:n]
        cats = [i != pos for i in range(n)]
        subs = [(i % 2 == 0) if i != pos else subs_on_tagonly for i in range(n)]
        exprs = [sel.SPEC_EXPRS[(3 * i + 1) % len(sel.SPEC_EXPRS)] for i in range(n)]
        # make the tag-only rule the most specific one by text as well
        exprs[pos] = 'regex("A.B") and month == 12 and amount > 5'
        rules = sel.build_rules(n, cats, subs, prios=ps, exprs=exprs)
        sel.inject_truth(rules, bs)
        full = sel.engine_for(rules, mode).match(dict(sel.TXN))
        reduced_rules = [r for i, r in enumerate(rules) if i != pos]
        red = sel.engine_for(reduced_rules, mode).match(dict(sel.TXN))
        same = ((full.matched, full.merchant, full.category, full.subcategory)
                == (red.matched, red.merchant, red.category, red.subcategory))
        same = same and (full.matched_rule is red.matched_rule)
        return post(same)
    return ob


class _ReShim:
    """Stands in for the `re` module inside tally.merchant_utils: search() of a rule pattern returns the
    (symbolic) truth value assigned to that pattern; everything else is the real module."""
    def __init__(self, truth):
        import re as _re
        self._re = _re
        self._truth = truth
        self.IGNORECASE = _re.IGNORECASE
        self.error = _re.error

    def search(self, pattern, text, flags=0):
        if pattern in self._truth:
            return self._truth[pattern]
        return self._re.search(pattern, text, flags)

    def __getattr__(self, name):
        return getattr(self._re, name)


def legacy_tags(fam):
    """Legacy tuple loop of normalize_merchant: tags of every matching tuple are collected, category only from
    tuples that have one.  Whether each CSV regex matches is a symbolic truth value (re.search stubbed)."""
    tagsets = TAG_FAMILIES[fam]

    def ob(b0: bool, b1: bool, b2: bool, fk: str, src: str) -> bool:
        """
        pre: len(fk) <= 2 and len(src) <= 1 and all(c in ' aB' for c in fk) and all(c in ' aB' for c in src)
        post: _
        """
        reset_tally_caches()
        if 'source' not in repr(tagsets):
            src = 'S'
        if 'field.k' not in repr(tagsets):
            fk = 'v'
        from tally import merchant_utils
        from tally.modifier_parser import ParsedPattern
        n = len(tagsets)
        pats = ['PAT0', 'PAT1', 'PAT2'][:n]
        cats = ['', 'Cat1', 'Cat2'][:n]
        bs = [b0, b1, b2][:n]
        rules = [(pats[i], f'M{i}', cats[i], 'S' if cats[i] else '', ParsedPattern(regex_pattern=pats[i], is_expression=False),
                  'user', list(tagsets[i])) for i in range(n)]
        real_re = merchant_utils.re
        merchant_utils.re = _ReShim(dict(zip(pats, bs)))
        try:
            m, c, s, info = merchant_utils.normalize_merchant('PROBE', rules, amount=3.0, field={'k': fk}, data_source=src)
        finally:
            merchant_utils.re = real_re
        bsc = [bool(b) for b in bs]
        exp = oracle_tags(tagsets, bsc, fk, src)
        got = set(info['tags']) if info else set()
        expcat, expm = 'Unknown', 'Probe'
        for i in range(n):
            if bsc[i] and cats[i]:
                expcat, expm = cats[i], f'M{i}'
                break
        return post(got == exp and c == expcat and m == expm)
    return ob


T_LET_TAGS = '''
is_large = amount > 9001

[Cat]
let: is_large = amount > 9002
let: ref = 9003
match: contains("@P1")
category: C1
tags: c1

[Large]
match: is_large
tags: large

[Ref]
match: amount > 0 or amount <= 0
tags: always, {ref}
'''


def tags_real(tname, gseed=0):
    """Tag union through real conditions: global variables, let bindings (per rule), dynamic {source} tags."""
    from harness import tmpl
    if tname == 'let-tags':
        text = T_LET_TAGS
    elif tname in tmpl.TEMPLATES:
        text = tmpl.TEMPLATES[tname]
    else:
        text = tmpl.generated(400, gseed)[tname]

    def ob(desc: str, amount: int, s1: str, s2: str, n1: int, n2: int, n3: int, src: str) -> bool:
        """
        pre: len(desc) <= 2 and len(s1) <= 1 and len(s2) <= 1 and len(src) <= 1 and all(c in ' aB' for c in src)
        post: _
        """
        reset_tally_caches()
        values = {'@P1': s1, '@P2': s2, '@P3': 'zz', '@P4': 'kv', 9001: n1, 9002: n2, 9003: n3}
        eng = tmpl.load(text, values)
        txn = {'description': desc, 'amount': amount, 'field': {'k': 'kv'}, 'source': src}
        res = eng.match(dict(txn))
        _, truth = tmpl.oracle_first_match(eng, dict(txn))
        exp = set()
        for r, t in zip(eng.rules, truth):
            if not t:
                continue
            for tag in r.tags:
                tag = tag.strip()
                if tag == '{source}':
                    if src.strip():
                        exp.add(src.strip().lower())
                elif tag == '{ref}':
                    pass            # `ref` is a let binding of ANOTHER rule: not evaluable here => dropped
                elif tag:
                    exp.add(tag.lower())
        return post(res.tags == exp)
    return ob


def two_rows_same_but_field():
    """Two rows that differ only in a captured column, classified one after the other through normalize_merchant with the
    cached engine: each gets the tags its own field value dictates."""
    def ob(k1: str, k2: str) -> bool:
        """
        pre: len(k1) <= 1 and len(k2) <= 1 and all(c in ' aB' for c in k1 + k2)
        post: _
        """
        from tally import merchant_utils
        from tally.merchant_engine import parse_merchants
        reset_tally_caches()
        use_engine(parse_merchants('[Z]\nmatch: contains("ZELLE")\ncategory: P2P\ntags: {field.k}\n\n[A]\nmatch: field.k == "a"\ntags: isa\n'))
        out = []
        for k in (k1, k2):
            r = merchant_utils.normalize_merchant('ZELLE PAY', [], amount=100.0, field={'k': k}, data_source='S')
            out.append(set(r[3]['tags']) if r[3] else set())
        exp = []
        for k in (k1, k2):
            e = set()
            if k.strip():
                e.add(k.strip().lower())
            if k.lower() == 'a':
                e.add('isa')
            exp.append(e)
        return post(out == exp)
    return ob


DYN_RULES = """
[Ref]
match: contains("REF")
category: Refs
tags: Fixed, {extract("REF:(\\S+)")}, {extract(field.memo, "\\D+(\\d+)")}

[Memo]
match: field.memo != ""
tags: {extract(field.memo, "^([A-Z]\\w*)")}, HasMemo
"""
DYN_DESCS = ['REF:ab1 x', 'ref:Q', 'REF: none', 'zz']
DYN_MEMOS = ['inv 4711', 'V12 b', '', 'x']


def dynamic_case(mode):
    """{expression} tags whose expression contains upper-case, case-SENSITIVE pieces (\\S, \\D, [A-Z]): the tag is the value the
    expression as WRITTEN evaluates to.  Expected values come from Python's re on the fixtures (extract = first group of a
    case-insensitive search; an empty or missing value drops the tag)."""
    def ob(di: int, mi: int) -> bool:
        """
        pre: 0 <= di <= 3 and 0 <= mi <= 3
        post: _
        """
        import re
        from engine.ob import pick
        from tally.merchant_engine import parse_merchants
        reset_tally_caches()
        desc, memo = DYN_DESCS[pick(di, 4)], DYN_MEMOS[pick(mi, 4)]
        eng = parse_merchants(DYN_RULES.replace('\\\\', '\\'), match_mode=mode)
        res = eng.match({'description': desc, 'amount': 5, 'field': {'memo': memo}, 'source': 'S'})

        def grp(pat, text):
            m_ = re.search(pat, text, re.IGNORECASE)
            return m_.group(1).lower() if m_ and m_.group(1) else None
        exp = set()
        if 'REF' in desc.upper():
            exp.add('fixed')
            for v in (grp(r'REF:(\S+)', desc), grp(r'\D+(\d+)', memo)):
                if v:
                    exp.add(v)
        if memo != '':
            exp.add('hasmemo')
            v = grp(r'^([A-Z]\w*)', memo)
            if v:
                exp.add(v)
        return post(res.tags == exp and res.category == ('Refs' if 'REF' in desc.upper() else ''))
    return ob


def obligations(tier, seed):
    obs = []
    for mode in ['first_match', 'most_specific']:
        obs.append(Obligation(id=f'dynamic-case-{mode}', factory='dynamic_case', params={'mode': mode}, timeout=120, group='tag union through real conditions',
                              bounds='dynamic tags with case-sensitive regex pieces; 4 descriptions x 4 memo values (symbolic index)'))
    modes = ['first_match', 'most_specific']
    for mode in modes:
        for fam in range(len(TAG_FAMILIES)):
            nn = len(TAG_FAMILIES[fam])
            cats = ([True, False, True] if fam % 2 == 0 else [False, True, False])[:nn]
            obs.append(Obligation(id=f'union-{mode}-f{fam}', factory='tags_union',
                                  params={'n': nn, 'mode': mode, 'fam': fam, 'cats': cats}, timeout=120,
                                  group='tag union', bounds=f'{nn} rules, tag family {fam} {TAG_FAMILIES[fam]}, mode {mode}; truth vector, field.k (<=2) and source (<=1) over the alphabet (blank,a,B) (tag sets hash their members, so each path holds one concrete tag text) and one priority symbolic'))
    for mode in modes:
        for n in ([2, 3] if tier == 'quick' else [2, 3, 4]):
            for pos in range(n):
                for sub in ([True] if tier == 'quick' else [True, False]):
                    obs.append(Obligation(id=f'neutral-{mode}-n{n}-p{pos}-s{int(sub)}', factory='neutrality',
                                          params={'n': n, 'mode': mode, 'pos': pos, 'subs_on_tagonly': sub},
                                          timeout=150 if n < 4 else 600, group='tag-only neutrality',
                                          bounds=f'{n} rules, tag-only rule at position {pos} (with subcategory text: {sub}), mode {mode}; truth vector and all priorities symbolic'))
    from harness import tmpl as _t
    names = ['let-tags', 'letshadow', 'letshadow2', 'vars2'] + list(_t.generated(4 if tier == 'quick' else 60, seed))
    for t in names:
        obs.append(Obligation(id=f'real-tags-{t}', factory='tags_real', params={'tname': t, 'gseed': seed}, timeout=150 if tier == 'quick' else 900,
                              group='tag union through real conditions', bounds=f'rule file {t}: description <= 2, constants <= 1, source <= 1 char over (blank,a,B), integer amount and thresholds'))
    obs.append(Obligation(id='two-rows-same-but-field', factory='two_rows_same_but_field', timeout=150, group='tag union through real conditions',
                          bounds='two rows differing only in field.k (<= 1 char over blank,a,B), same engine'))
    for fam in range(len(TAG_FAMILIES)):
        obs.append(Obligation(id=f'legacy-f{fam}', factory='legacy_tags', params={'fam': fam}, timeout=150,
                              group='legacy loop', bounds='2-3 CSV tuples (first one tag-only); regex truth vector symbolic (re.search stubbed), field.k (<=2) / source (<=1) over (blank,a,B) symbolic'))
    return obs
