"""C16 - explain and discover describe the same classification that up applies."""
from engine.ob import REPO_SRC  # noqa: E402
from engine.ob import pick as _pick, flag as _flag  # noqa: F401
from engine.ob import Obligation, post, reset_tally_caches
from harness import wiring as W

LEVEL = 'other'
EXPLANATION = ('(1) Function level: the real explain_description and the real normalize_merchant run under CrossHair on the rules the real '
               'get_all_rules loads from template files, with a symbolic description and amount; merchant, category, subcategory and the '
               'winning rule must coincide.  (2) Wiring level: the real cmd_explain and cmd_discover run with the same recorders and '
               'symbolic per-source flags as cmd_run (C11); the recorded parse calls (file, FormatSpec, separator, rules - probed by '
               'classifying fixed transactions with them -, transforms) must coincide with cmd_run\'s, and discover must list exactly the '
               'Unknown transactions with the same counts and totals.')
FUNCTIONS = ['merchant_utils.explain_description', 'merchant_utils.normalize_merchant', 'merchant_utils.get_all_rules', 'commands.explain.cmd_explain',
             'commands.discover.cmd_discover', 'commands.run.cmd_run']
BOUNDS = 'description <= 2 ASCII chars, integer amount; 4 rule templates; 2-3 sources with symbolic exists / decimal-separator flags'
OUTSIDE = 'explain\'s formatted text; merchant-name search modes of cmd_explain; budgets using features listed as known findings'
STUBS = ['as C11 (collaborators of the command modules replaced by recorders)']
TRUSTED = []
ASSUMPTIONS = []

import os
import tempfile

TEMPLATES = {
    'plain': '''
[Rent]
match: contains("RE") and amount > 1000
category: Housing

[Large]
match: amount > 500
category: Transfers
subcategory: Big

[Cafe]
match: startswith("C")
category: Food
subcategory: Coffee
''',
    'conditions': '''
[NotA]
match: not contains("A") and amount < 5
category: NoA

[InDesc]
match: "B" in description
category: HasB
subcategory: SubB

[Src]
match: regex("^C.?D")
category: Cd
''',
    'transforms': '''
field.description = strip_prefix(field.description, "X")

[A]
match: startswith("A")
category: StartsA

[Rest]
match: amount >= 0
category: Rest
subcategory: R
''',
}
KNOWN_TEMPLATES = {
    'tag-only-first': ('''
[Tag]
match: amount > 5
tags: big

[Cat]
match: amount > 1
category: Cat
''', 'C16:explain-stops-at-tag-only-rule', {'desc': 'q', 'amount': 9}),
    'let-variables': ('''
lim = 10

[V]
let: x = amount * 2
match: x > lim
category: Doubled
''', 'C16:explain-ignores-let-and-variables', {'desc': 'q', 'amount': 7}),
    'most-specific': ('''
[General]
match: contains("A")
category: General

[Specific]
match: contains("A") and amount > 5
category: Specific
''', 'C16:explain-ignores-most-specific', {'desc': 'A', 'amount': 9}),
}
_PATHS = {}


def _path(name, text):
    if name not in _PATHS:
        d = tempfile.mkdtemp(prefix='verif_c16_')
        p = os.path.join(d, 'merchants.rules')
        with open(p, 'w') as f:
            f.write(text)
        _PATHS[name] = p
    return _PATHS[name]


def _compare(path, desc, amount, mode='first_match'):
    from tally import merchant_utils
    reset_tally_caches()
    rules = merchant_utils.get_all_rules(path, match_mode=mode)
    transforms = merchant_utils.get_transforms(path, match_mode=mode)
    real = merchant_utils.extract_merchant_name
    merchant_utils.extract_merchant_name = lambda d: 'FALLBACK'
    try:
        up = merchant_utils.normalize_merchant(desc, rules, amount=amount, transforms=transforms)
        ex = merchant_utils.explain_description(desc, rules, amount=amount, transforms=transforms)
    finally:
        merchant_utils.extract_merchant_name = real
    ok = (ex['merchant'], ex['category'], ex['subcategory']) == (up[0], up[1], up[2])
    ok = ok and ex['is_unknown'] == (up[1] == 'Unknown')
    if up[3] and up[3].get('pattern') and ex['matched_rule']:
        ok = ok and ex['matched_rule']['pattern'] == up[3]['pattern']
    return ok


def explain_vs_up(name):
    path = _path(name, TEMPLATES[name])

    def ob(desc: str, amount: int) -> bool:
        """
        pre: len(desc) <= 2
        post: _
        """
        return post(_compare(path, desc, amount))
    return ob


def known(name):
    text, key, args = KNOWN_TEMPLATES[name]
    path = _path(name, text)

    class Q:
        def query(self):
            ok = self()
            r = {'solver_queries': 0, 'solver_time_s': 0.0, 'paths': 1}
            r.update({'status': 'CONFIRMED', 'message': 'explain agrees with up'} if ok else
                     {'status': 'REFUTED', 'args': {}, 'message': 'explain_description and normalize_merchant disagree on %r' % (args,)})
            return r

        def __call__(self, **kw):
            import sys
            sys.path.insert(0, REPO_SRC)
            return _compare(path, args['desc'], args['amount'], 'most_specific' if name == 'most-specific' else 'first_match')
    return Q()


# ------------------------------------------------------------------------------------------ wiring
def _args_explain():
    import argparse
    return argparse.Namespace(config=None, settings='settings.yaml', merchant=[], verbose=0, format='text', view=None, category=None,
                              tags=None, month=None, location=None, amount=None)


def _args_discover(fmt='json'):
    import argparse
    return argparse.Namespace(config=None, settings='settings.yaml', limit=0, format=fmt)


def _parse_digest(rec, with_supp=True):
    out = []
    for c in rec.calls:
        if c[0] == 'parse':
            out.append((c[1], c[2], (c[3].date_column, c[3].amount_column, c[3].description_column, c[3].delimiter, c[3].has_header, c[3].negate_amount, c[3].date_format),
                        c[4], c[5], c[6]))
    return out


def wiring(n, kind, supp=False, ms_fixed=None):
    W.rules_path('rules')
    W.rules_path('csv')

    def ob(ex0: bool, ex1: bool, ex2: bool, cd0: bool, cd1: bool, cd2: bool, ms: bool) -> bool:
        """
        post: _
        """
        import json
        from tally.commands import run as runmod, explain as exmod, discover as dimod
        flags = [{'exists': ex0, 'comma_decimal': cd0, 'delimiter': True}, {'exists': ex1, 'comma_decimal': cd1, 'no_header': True, 'supplemental': supp},
                 {'exists': ex2, 'comma_decimal': cd2, 'negate': True}][:n]
        if ms_fixed is not None:
            ms = ms_fixed
        mode = 'most_specific' if ms else 'first_match'
        digests = []
        recs = []
        for mod, fn, args in ((runmod, 'cmd_run', W.run_args(format='json', summary=False)), (exmod, 'cmd_explain', _args_explain()),
                              (dimod, 'cmd_discover', _args_discover())):
            reset_tally_caches()
            rec = W.Recorder(flags, rule_mode=mode, rules_kind=kind)
            W.run_command(mod, fn, args, rec)
            digests.append(_parse_digest(rec))
            recs.append(rec)
        ok = digests[1] == digests[0] and digests[2] == digests[0]
        # discover lists exactly the transactions up leaves Unknown, with the same counts and totals
        good = [i for i, f in enumerate(flags) if f['exists'] and not f.get('supplemental')]
        unknown = [t for i in good for t in W.canned_txns(i) if t['category'] == 'Unknown']
        text = '\\n'.join(recs[2].printed)
        if not good:
            return post(ok)
        if not unknown:
            return post(ok and 'No unknown transactions' in text)
        start = text.find('[')
        data = json.loads(text[start:]) if start >= 0 else None
        ok = ok and isinstance(data, list)
        if ok:
            got = sorted((d['raw_description'], d['count'], d['total_spend']) for d in data)
            exp = {}
            for t in unknown:
                c, s = exp.get(t['raw_description'], (0, 0.0))
                exp[t['raw_description']] = (c + 1, s + abs(t['amount']))
            ok = got == sorted((k, c, round(s, 2)) for k, (c, s) in exp.items())
        return post(ok)
    return ob


QUERIES = ['UBER EATS', 'Uber Eats', 'Parking Meter', 'N1', 'M1']


def explain_merchant_lookup():
    """`tally explain <merchant>`: the merchant explained is the one up reports under exactly that name."""
    W.rules_path('rules')
    W.rules_path('csv')

    def ob(qi: int, ex1: bool) -> bool:
        """
        pre: 0 <= qi <= 4
        post: _
        """
        from tally.commands import explain as exmod
        from tally.analyzer import analyze_transactions
        reset_tally_caches()
        flags = [{'exists': True}, {'exists': bool(ex1)}]
        rec = W.Recorder(flags, rules_kind='rules', real_analyze=True)
        args = _args_explain()
        q = QUERIES[_pick(qi, 5)]
        args.merchant = [q]
        W.run_command(exmod, 'cmd_explain', args, rec)
        txns = [t for i, f in enumerate(flags) if f['exists'] for t in W.canned_txns(i)]
        up = analyze_transactions(txns)['by_merchant']
        calls = [c for c in rec.calls if c[0] == '_print_merchant_explanation']
        if q in up:
            ok = len(calls) == 1 and calls[0][1][0] == q and calls[0][1][1]['category'] == up[q]['category'] and calls[0][1][1]['count'] == up[q]['count']
        else:
            ok = all(c[1][0] in up for c in calls)
        return post(ok)
    return ob


def obligations(tier, seed):
    q = tier == 'quick'
    obs = []
    for name in TEMPLATES:
        obs.append(Obligation(id=f'explain-{name}', factory='explain_vs_up', params={'name': name}, timeout=150 if q else 900, group='explain_description vs normalize_merchant',
                              bounds=f'rules template {name}; description <= 2 ASCII chars, integer amount'))
    for name, (_, key, args) in KNOWN_TEMPLATES.items():
        obs.append(Obligation(id=f'known-{name}', factory='known', params={'name': name}, engine='smt', twin=False, kind='known', known_key=key, timeout=60,
                              group='known findings', bounds=f'template {name}, transaction {args}'))
    for n in [2, 3]:
        for kind in ['rules', 'csv']:
            for msf in ([None] if n == 2 else [False, True]):       # 3 sources: one obligation per rule mode (64 paths each)
                obs.append(Obligation(id=f'wiring-n{n}-{kind}' + ('' if msf is None else '-ms%d' % msf), factory='wiring', params={'n': n, 'kind': kind, 'ms_fixed': msf}, timeout=(170 if n == 2 else 280) if q else 900, group='explain / discover / up wiring',
                                      bounds=f'{n} sources (no supplemental source), rules file kind {kind}; symbolic file-exists and decimal-separator flags per source, ' + ('symbolic rule mode' if msf is None else 'rule mode ' + ('most_specific' if msf else 'first_match'))))
    obs.append(Obligation(id='explain-merchant-lookup', factory='explain_merchant_lookup', timeout=170 if q else 600, group='explain / discover / up wiring',
                          bounds='explain <merchant> for a symbolic choice among 5 names (two differ only in letter case); second source exists or not'))
    obs.append(Obligation(id='known-supplemental-sources', factory='wiring', params={'n': 2, 'kind': 'rules', 'supp': True}, kind='known',
                          known_key='C16:explain-discover-treat-supplemental-as-transactions', timeout=120, group='known findings',
                          bounds='2 sources, the second supplemental'))
    return obs
