"""C17 - rule files are read by structure alone; malformed ones are rejected, not trimmed."""
import os
import tempfile
from engine.ob import REPO_SRC  # noqa: E402
from engine.ob import pick as _pick, flag as _flag  # noqa: F401
from engine.ob import Obligation, post, reset_tally_caches

LEVEL = 'other'
EXPLANATION = ('Layout insensitivity: the real MerchantEngine.parse / parse_sections run under CrossHair on base files to which a '
               'layout-preserving edit with SYMBOLIC parameters is applied (blank-line counts, inserted comment lines, trailing '
               'blanks, CRLF, indentation width and kind of property lines, key letter case, permutation of a section\'s distinct '
               'properties); the parsed rules/variables/transforms (sections/variables) must equal those of the base file.  Here the '
               'solver covers the whole product of edit parameters and hands back the failing combination; it does not reason about '
               'text (a symbolic character inside the file text never confirmed).  Reject-not-trim: single-point corruptions at a '
               'symbolic position must raise a parse error whose line lies inside the offending rule/section.  Reported-not-swallowed: '
               'loading a corrupt .rules file through get_transforms + get_all_rules (the order the commands use) must raise, and '
               '_check_merchant_migration must stop with an error message.')
FUNCTIONS = ['MerchantEngine.parse', 'MerchantEngine._add_rule', 'section_engine.parse_sections', 'merchant_utils.get_all_rules',
             'merchant_utils.get_transforms', 'cli._check_merchant_migration', 'config_loader.load_config (views branch)']
BOUNDS = '6 merchants base files and 4 views base files; edit parameters: blank lines 0-2, one comment from a set of 5, trailing blanks 0-2 (space/tab), CRLF, indentation 0-3 (space/tab), key case variant, property permutation index'
OUTSIDE = 'edits that are not layout-preserving; files other than the base files; a symbolic character inside the file text'
STUBS = []
TRUSTED = []
ASSUMPTIONS = []

M_BASES = [
    '''big = amount > 100
field.description = regex_replace(field.description, "^X ", "")

[Netflix]
match: contains("NETFLIX")
category: Subscriptions
subcategory: Streaming
tags: entertainment, recurring

[Large]
match: big
tags: large
''',
    '''[A]
let: total = amount * 2
field: total = total
field: other = amount + 1
match: total > 50 and contains("A")
category: CatA
merchant: Alpha Co
priority: 60

[B]
match: regex("B(?!x)") or "q" in description
category: CatB
tags: t1, {field.k}, {extract(description, "(\\\\d)")}
''',
    '''[Only Tags]
match: amount < 0
tags: refund

[Second]
match: startswith("S") and month == 12
category: Seasonal
subcategory: Winter
''',
]

V_BASES = [
    '''threshold = 500

[Big]
description: big merchants
filter: total > threshold

[Frequent]
local = months * 2
filter: local >= 6 and category == "Food"
''',
    '''[Spiky]
description: uneven months
top = max(sum(by("month")))
low = min(sum(by("month")))
filter: top > low * 2

[Plain]
filter: total > 10
description: the rest
''',
    '''[Total]
filter: True

[Peaks]
filter: max(sum(by("month"))) > 300 and "recurring" in tags
''',
]

COMMENTS = ['# plain comment', '#[x]', '# match: y', '#', '   # indented comment',
            '# page break\x0ccategory: Wiki\x0cpriority: 99', '# separators\x1cmatch: zz\x1dtags: q\x0bsubcategory: V']        # ASCII control characters are not line ends
KEY_CASE = [str.lower, str.upper, str.title]


def _sections(lines):
    """Split lines into preamble + sections; returns list of (header_or_None, [property lines])."""
    out = [(None, [])]
    for ln in lines:
        if ln.strip().startswith('[') and ln.strip().endswith(']'):
            out.append((ln, []))
        elif ln.strip():
            out[-1][1].append(ln)
    return out


def _apply_edit(text, is_merchants, nblank, comment_i, use_comment, ntrail, trail_tab, crlf, indent, indent_tab, case_i, perm_i, where):
    """Layout-preserving edit with the given parameters.  `where` selects the insertion point for blank/comment lines."""
    import itertools
    secs = _sections(text.split('\n'))
    out_lines = []
    point = 0
    for header, props in secs:
        if header is not None:
            out_lines.append(header)
        plist = list(props)
        if header is not None and len(plist) > 1:
            # permutation of a section's distinct properties (order of repeated keys - let:/field: - is kept)
            keys = [p.split(':', 1)[0].strip().lower() if ':' in p else p for p in plist]
            movable = [i for i, k in enumerate(keys) if keys.count(k) == 1 and k not in ('let', 'field') and '=' not in plist[i].split(':', 1)[0]]
            if not is_merchants:
                # views: description, filter and the view's own variables may come in any order (the variables keep their order among themselves)
                movable = list(range(len(plist)))
                isvar = [':' not in p.split('=', 1)[0] and '=' in p for p in plist]
                perms = [pm for pm in itertools.permutations(movable) if [x for x in pm if isvar[x]] == [x for x in movable if isvar[x]]]
                perm = perms[perm_i % len(perms)]
                plist = [plist[x] for x in perm]
            elif len(movable) > 1:
                perms = list(itertools.permutations(movable))
                perm = perms[perm_i % len(perms)]
                newp = list(plist)
                for src, dst in zip(movable, perm):
                    newp[src] = plist[dst]
                # let/field lines must stay before the properties that use them only by position among themselves
                plist = newp
        for p in plist:
            line = p
            if header is not None:
                if is_merchants and ':' in line:
                    k, v = line.split(':', 1)
                    line = KEY_CASE[case_i % 3](k) + ':' + v
                line = ('\t' if indent_tab else ' ') * indent + line.strip() if (is_merchants or not line.strip().startswith('filter')) else line
                if not is_merchants:
                    line = p      # views: property lines are matched after strip(); keep text, indentation handled below
                    line = ('\t' if indent_tab else ' ') * indent + p.strip()
            if point == where:
                out_lines.extend([''] * nblank)
                if use_comment:
                    out_lines.append(COMMENTS[comment_i % len(COMMENTS)])
            point += 1
            out_lines.append(line + ('\t' if trail_tab else ' ') * ntrail)
        out_lines.append('')
    sep = '\r\n' if crlf else '\n'
    return sep.join(out_lines)


def _m_digest(eng):
    return ([(r.name, r.match_expr, r.category, r.subcategory, r.merchant, sorted(r.tags), r.priority, list(r.let_bindings), sorted(r.fields.items())) for r in eng.rules],
            sorted(eng.variables.items()), list(eng.transforms))


def _v_digest(cfg):
    return ([(s.name, s.filter_expr, sorted(s.variables.items()), s.description) for s in cfg.sections], sorted(cfg.global_variables.items()))


def layout(kind, i, focus):
    is_m = kind == 'm'
    base = (M_BASES if is_m else V_BASES)[i]

    def core(nblank=0, comment_i=0, use_comment=False, ntrail=0, trail_tab=False, crlf=False, indent=0, indent_tab=False, case_i=0, perm_i=0, where=0):
        from tally.merchant_engine import parse_merchants
        from tally.section_engine import parse_sections
        reset_tally_caches()
        edited = _apply_edit(base, is_m, nblank, comment_i, use_comment, ntrail, trail_tab, crlf, indent, indent_tab, case_i, perm_i, where)
        if is_m:
            return post(_m_digest(parse_merchants(edited)) == _m_digest(parse_merchants(base)))
        return post(_v_digest(parse_sections(edited)) == _v_digest(parse_sections(base)))

    def ob_lines(nblank: int, comment_i: int, use_comment: bool, where: int, crlf: bool) -> bool:
        """
        pre: 0 <= nblank <= 2 and 0 <= comment_i <= 6 and 0 <= where <= 9
        post: _
        """
        return core(nblank=_pick(nblank, 3), comment_i=_pick(comment_i, 7), use_comment=use_comment, where=_pick(where, 10), crlf=crlf)

    def ob_space(ntrail: int, trail_tab: bool, indent: int, indent_tab: bool, crlf: bool) -> bool:
        """
        pre: 0 <= ntrail <= 2 and 0 <= indent <= 3
        post: _
        """
        return core(ntrail=_pick(ntrail, 3), trail_tab=trail_tab, indent=_pick(indent, 4), indent_tab=indent_tab, crlf=crlf)

    def ob_keys(case_i: int, perm_i: int, indent: int) -> bool:
        """
        pre: 0 <= case_i <= 2 and 0 <= perm_i <= 23 and 0 <= indent <= 1
        post: _
        """
        return core(case_i=_pick(case_i, 3), perm_i=_pick(perm_i, 24), indent=_pick(indent, 2))
    return {'lines': ob_lines, 'space': ob_space, 'keys': ob_keys}[focus]


# ------------------------------------------------------------------------------------------ reject, not trim
BAD_EXPRS = ['amount >', 'lambda: 0', 'contains("A"', '[1, 2]', '1 +* 2', 'amount ** 2',
             '', '   ', ')', '"open', 'amount amount', 'contains("A") and']       # degenerate texts: nothing at all, blanks, a lone bracket, an open string
BIND_NAMES = ['total', 'Total_X', 'ORDER_id']        # a binding's name may be written in any letter case
UNKNOWN_KEYS = ['matches', 'tag', 'categroy', 'cat egory', 'filter', 'Sub-category']
BAD_PRIO = ['high', '1.5', '', '1e3']


def _rule_spans(text):
    """[(first line, last line)] (1-based) of every [section] in text."""
    lines = text.split('\n')
    starts = [i + 1 for i, l in enumerate(lines) if l.strip().startswith('[') and l.strip().endswith(']')]
    spans = []
    for j, st in enumerate(starts):
        end = (starts[j + 1] - 1) if j + 1 < len(starts) else len(lines)
        spans.append((st, end))
    return spans


def corrupt_merchants(i, how):
    base = M_BASES[i]

    def ob(which: int, pick: int) -> bool:
        """
        pre: 0 <= which <= 2 and 0 <= pick <= 11
        post: _
        """
        from tally.merchant_engine import parse_merchants, MerchantParseError
        reset_tally_caches()
        which, pick = _pick(which, 3), _pick(pick, 12)
        lines = base.split('\n')
        spans = _rule_spans(base)
        which = which % len(spans)
        st, en = spans[which]
        body = list(range(st, en))          # 0-based indices of the lines after the header
        target = None
        if how == 'drop-match':
            for k in body:
                if lines[k].strip().lower().startswith('match:'):
                    target = k
            del lines[target]
        elif how == 'unknown-key':
            lines.insert(st, UNKNOWN_KEYS[pick % len(UNKNOWN_KEYS)] + ': whatever')
        elif how == 'bad-match':
            for k in body:
                if lines[k].strip().lower().startswith('match:'):
                    lines[k] = 'match: ' + BAD_EXPRS[pick % len(BAD_EXPRS)]
        elif how == 'bad-let':
            lines.insert(st, 'let: ' + BIND_NAMES[pick % 3] + ' = ' + BAD_EXPRS[pick % len(BAD_EXPRS)])
        elif how == 'let-no-eq':
            lines.insert(st, 'let: total amount')
        elif how == 'bad-field':
            lines.insert(st, 'field: ' + ['extra', 'Order_Id', 'MEMO2'][(pick // 4) % 3] + ' = ' + BAD_EXPRS[pick % len(BAD_EXPRS)])
        elif how == 'field-no-eq':
            lines.insert(st, 'field: nothing')
        elif how == 'bad-priority':
            lines.insert(st, 'priority: ' + BAD_PRIO[pick % len(BAD_PRIO)])
        elif how == 'junk-line':
            lines.insert(st, 'this is not a property')
        elif how == 'colon-typo':
            # a property line of the rule written with '=' instead of ':' (subcategory = Coffee)
            props = [k for k in body if ':' in lines[k] and lines[k].strip() and not lines[k].strip().startswith('#')]
            k = props[pick % len(props)]
            key, val = lines[k].split(':', 1)
            lines[k] = key + ' =' + val
        elif how == 'empty-name':
            lines[st - 1] = '[   ]'
        elif how == 'no-category-no-tags':
            lines = [l for k, l in enumerate(lines) if not (k in body and l.strip().lower().split(':')[0] in ('category', 'tags', 'subcategory'))]
        text = '\n'.join(lines)
        new_spans = _rule_spans(text)
        try:
            parse_merchants(text)
        except MerchantParseError as e:
            if how == 'empty-name':
                return post(e.line_number == st)
            lo, hi = new_spans[which] if which < len(new_spans) else (st, len(lines))
            return post(lo <= e.line_number <= hi)
        return post(False)
    return ob


def corrupt_views(i, how):
    base = V_BASES[i]

    def ob(which: int, pick: int) -> bool:
        """
        pre: 0 <= which <= 1 and 0 <= pick <= 11
        post: _
        """
        from tally.section_engine import parse_sections, SectionParseError
        reset_tally_caches()
        which, pick = _pick(which, 2), _pick(pick, 12)
        lines = base.split('\n')
        spans = _rule_spans(base)
        which = which % len(spans)
        st, en = spans[which]
        if how == 'drop-filter':
            lines = [l for k, l in enumerate(lines) if not (st <= k < en and l.strip().startswith('filter:'))]
        elif how == 'bad-filter':
            for k in range(st, en):
                if lines[k].strip().startswith('filter:'):
                    lines[k] = 'filter: ' + BAD_EXPRS[pick % len(BAD_EXPRS)]
        elif how == 'bad-variable':
            lines.insert(st, 'v = ' + BAD_EXPRS[pick % len(BAD_EXPRS)])
        elif how == 'junk-line':
            lines.insert(st, 'category: Food')
        text = '\n'.join(lines)
        new_spans = _rule_spans(text)
        try:
            parse_sections(text)
        except SectionParseError as e:
            lo, hi = new_spans[which]
            return post(lo <= e.line_number <= hi)
        return post(False)
    return ob


# ------------------------------------------------------------------------------------------ reported, not swallowed
CORRUPT_FILES = {
    'unknown-key': '[A]\nmatch: contains("A")\ncategory: CA\n\n[B]\nmatch: contains("B")\ncategroy: CB\n',
    'bad-let-shadowed-by-field': '[A]\nlet: total = amount * * 2)\nfield: total = total\nmatch: contains("A")\ncategory: CA\n',
    'missing-match': '[A]\nmatch: contains("A")\ncategory: CA\n\n[B]\ncategory: CB\n',
    'bad-expression': '[A]\nmatch: contains("A"\ncategory: CA\n',
    'empty-match': '[A]\nmatch: contains("A")\ncategory: CA\n\n[B]\nmatch:\ncategory: CB\n',
    'blank-let': '[A]\nlet: x =\nmatch: contains("A")\ncategory: CA\n',
    'lone-bracket': '[A]\nmatch: )\ncategory: CA\n',
    'not-utf8-text': '[A]\nmatch: contains("A") and \x00\ncategory: CA\n',
}


def reported(name):
    """A corrupt .rules file loaded the way the commands load it (get_transforms first, then get_all_rules): the error must
    reach the caller, and _check_merchant_migration must stop with a message naming it."""
    class Q:
        def query(self):
            ok, why = self._run()
            r = {'solver_queries': 0, 'solver_time_s': 0.0, 'paths': 1, 'extra': {'decided_by': 'direct run on a real file (file text cannot be symbolic)'}}
            r.update({'status': 'CONFIRMED', 'message': why} if ok else {'status': 'REFUTED', 'args': {}, 'message': why})
            return r

        def _run(self):
            import contextlib
            import io
            import sys
            sys.path.insert(0, REPO_SRC)
            from tally import merchant_utils
            from tally.merchant_engine import MerchantParseError
            from tally import cli
            reset_tally_caches()
            d = tempfile.mkdtemp(prefix='verif_c17_')
            os.makedirs(os.path.join(d, 'config'))
            p = os.path.join(d, 'config', 'merchants.rules')
            with open(p, 'w') as f:
                f.write(CORRUPT_FILES[name])
            merchant_utils.get_transforms(p)
            try:
                rules = merchant_utils.get_all_rules(p)
                return False, 'get_all_rules returned %d rules for a corrupt file' % len(rules)
            except MerchantParseError:
                pass
            merchant_utils.get_transforms(p)
            out, err = io.StringIO(), io.StringIO()
            cfg = {'_merchants_file': p, '_merchants_format': 'new', 'rule_mode': 'first_match'}
            try:
                with contextlib.redirect_stdout(out), contextlib.redirect_stderr(err):
                    cli._check_merchant_migration(cfg, os.path.join(d, 'config'), quiet=False, migrate=False)
            except SystemExit as e:
                if e.code in (0, None):
                    return False, 'exit status 0'
                if 'Line' not in (out.getvalue() + err.getvalue()):
                    return False, 'error message does not name the line: %r' % (out.getvalue() + err.getvalue())[-200:]
                return True, 'reported and stopped'
            except MerchantParseError:
                return True, 'raised'
            return False, 'a corrupt rules file loaded silently: %r' % out.getvalue()[-200:]

        def __call__(self, **kw):
            return self._run()[0]
    return Q()


# what each base file says, written down by hand (a parser that mis-reads a base file the same way before and after a
# layout edit would otherwise go unnoticed)
M_EXPECTED = [
    ([('Netflix', 'contains("NETFLIX")', 'Subscriptions', 'Streaming', 'Netflix', ['entertainment', 'recurring'], 50, [], []),
      ('Large', 'big', '', '', 'Large', ['large'], 50, [], [])],
     [('big', 'amount > 100')], [('field.description', 'regex_replace(field.description, "^X ", "")')]),
    ([('A', 'total > 50 and contains("A")', 'CatA', '', 'Alpha Co', [], 60, [('total', 'amount * 2')], [('other', 'amount + 1'), ('total', 'total')]),
      ('B', 'regex("B(?!x)") or "q" in description', 'CatB', '', 'B', ['t1', '{extract(description, "(\\\\d)")}', '{field.k}'], 50, [], [])],
     [], []),
    ([('Only Tags', 'amount < 0', '', '', 'Only Tags', ['refund'], 50, [], []),
      ('Second', 'startswith("S") and month == 12', 'Seasonal', 'Winter', 'Second', [], 50, [], [])],
     [], []),
]
V_EXPECTED = [
    ([('Big', 'total > threshold', [], 'big merchants'), ('Frequent', 'local >= 6 and category == "Food"', [('local', 'months * 2')], None)], [('threshold', '500')]),
    ([('Spiky', 'top > low * 2', [('low', 'min(sum(by("month")))'), ('top', 'max(sum(by("month")))')], 'uneven months'), ('Plain', 'total > 10', [], 'the rest')], []),
    ([('Total', 'True', [], None), ('Peaks', 'max(sum(by("month"))) > 300 and "recurring" in tags', [], None)], []),
]
BAD_VIEWS = {
    'no-filter': '[A]\nfilter: total > 1\n\n[B]\ndescription: nothing else\n',
    'bad-filter': '[A]\nfilter: total >\n',
    'bad-variable': 'x = 1 +* 2\n\n[A]\nfilter: x > 1\n',
    'unknown-line': '[A]\ncategory: Food\nfilter: total > 1\n',
}


def base_expected(kind, i):
    class Q:
        def query(self):
            ok, why = self._run()
            r = {'solver_queries': 0, 'solver_time_s': 0.0, 'paths': 1, 'extra': {'decided_by': 'direct comparison with the hand-written reading of the base file'}}
            r.update({'status': 'CONFIRMED', 'message': why} if ok else {'status': 'REFUTED', 'args': {}, 'message': why})
            return r

        def _run(self):
            import sys
            sys.path.insert(0, REPO_SRC)
            from tally.merchant_engine import parse_merchants
            from tally.section_engine import parse_sections
            reset_tally_caches()
            if kind == 'm':
                got = _m_digest(parse_merchants(M_BASES[i]))
                exp = M_EXPECTED[i]
                exp = ([tuple(x) for x in exp[0]], sorted(exp[1]), list(exp[2]))
                got = ([tuple(x) for x in got[0]], got[1], got[2])
            else:
                got = _v_digest(parse_sections(V_BASES[i]))
                exp = ([tuple(x) for x in V_EXPECTED[i][0]], sorted(V_EXPECTED[i][1]))
                got = ([tuple(x) for x in got[0]], got[1])
            if got != exp:
                return False, 'base file %s%d is read as %r, it says %r' % (kind, i, got, exp)
            return True, 'base file read as written'

        def __call__(self, **kw):
            return self._run()[0]
    return Q()


def views_error_reported(name):
    """A corrupt views file: load_config keeps going but records an error entry naming the line; `sections` is None."""
    class Q:
        def query(self):
            ok, why = self._run()
            r = {'solver_queries': 0, 'solver_time_s': 0.0, 'paths': 1, 'extra': {'decided_by': 'direct run on real files'}}
            r.update({'status': 'CONFIRMED', 'message': why} if ok else {'status': 'REFUTED', 'args': {}, 'message': why})
            return r

        def _run(self):
            import sys
            sys.path.insert(0, REPO_SRC)
            from tally.config_loader import load_config
            reset_tally_caches()
            d = tempfile.mkdtemp(prefix='verif_c17v_')
            cfg = os.path.join(d, 'config')
            os.makedirs(cfg)
            with open(os.path.join(cfg, 'settings.yaml'), 'w') as f:
                f.write('year: 2024\nviews_file: config/views.rules\ndata_sources:\n  - name: B\n    file: data/b.csv\n    format: "{date}, {description}, {amount}"\n')
            with open(os.path.join(cfg, 'views.rules'), 'w') as f:
                f.write(BAD_VIEWS[name])
            c = load_config(cfg)
            errs = [w for w in c.get('_warnings', []) if w.get('type') == 'error' and 'views' in (w.get('message', '') + w.get('source', '')).lower()]
            if c.get('sections') is not None:
                return False, 'a corrupt views file produced views'
            if not errs:
                return False, 'no error entry for the corrupt views file in config["_warnings"]: %r' % c.get('_warnings')
            if 'Line' not in errs[0].get('message', ''):
                return False, 'the error does not name the line: %r' % errs[0]
            return True, 'reported: ' + errs[0]['message'][:80]

        def __call__(self, **kw):
            return self._run()[0]
    return Q()


def obligations(tier, seed):
    q = tier == 'quick'
    obs = []
    to = 120 if q else 600
    what = {'lines': 'blank-line count (0-2), comment line (5 texts) yes/no, insertion point (0-9), CRLF',
            'space': 'trailing blanks (0-2, space/tab), indentation of property lines (0-3, space/tab), CRLF',
            'keys': 'key letter-case variant (3), permutation index of distinct properties (24), indentation 0-1'}
    for i in range(len(M_BASES)):
        for fo in ['lines', 'space', 'keys']:
            obs.append(Obligation(id=f'layout-m{i}-{fo}', factory='layout', params={'kind': 'm', 'i': i, 'focus': fo}, timeout=(180 if (q and fo == 'lines') else to),
                                  group='layout insensitivity (merchants files)', bounds=f'base file m{i}; symbolic ' + what[fo]))
    for i in range(len(V_BASES)):
        for fo in ['lines', 'space', 'keys']:
            obs.append(Obligation(id=f'layout-v{i}-{fo}', factory='layout', params={'kind': 'v', 'i': i, 'focus': fo}, timeout=(180 if (q and fo == 'lines') else to),
                                  group='layout insensitivity (views files)', bounds=f'base file v{i}; symbolic ' + what[fo]))
    for i in range(len(M_BASES)):
        for how in ['drop-match', 'unknown-key', 'bad-match', 'bad-let', 'let-no-eq', 'bad-field', 'field-no-eq', 'bad-priority', 'junk-line', 'colon-typo', 'empty-name', 'no-category-no-tags']:
            obs.append(Obligation(id=f'reject-m{i}-{how}', factory='corrupt_merchants', params={'i': i, 'how': how}, timeout=to,
                                  group='reject, not trim (merchants files)', bounds=f'base file m{i}; corruption {how} in a symbolic rule (0-2) with a symbolic pick from the corruption texts'))
    for i in range(len(V_BASES)):
        for how in ['drop-filter', 'bad-filter', 'bad-variable', 'junk-line']:
            obs.append(Obligation(id=f'reject-v{i}-{how}', factory='corrupt_views', params={'i': i, 'how': how}, timeout=to,
                                  group='reject, not trim (views files)', bounds=f'base file v{i}; corruption {how} in a symbolic view with a symbolic pick'))
    for i in range(len(M_BASES)):
        obs.append(Obligation(id=f'base-m{i}-as-written', factory='base_expected', params={'kind': 'm', 'i': i}, engine='smt', twin=False, timeout=60,
                              group='base files read as written', bounds=f'merchants base file m{i} against its hand-written reading'))
    for i in range(len(V_BASES)):
        obs.append(Obligation(id=f'base-v{i}-as-written', factory='base_expected', params={'kind': 'v', 'i': i}, engine='smt', twin=False, timeout=60,
                              group='base files read as written', bounds=f'views base file v{i} against its hand-written reading'))
    for name in BAD_VIEWS:
        obs.append(Obligation(id=f'views-error-reported-{name}', factory='views_error_reported', params={'name': name}, engine='smt', twin=False, timeout=60,
                              group='reported, not swallowed', bounds=f'corrupt views file {name!r} through the real load_config'))
    for name in CORRUPT_FILES:
        obs.append(Obligation(id=f'reported-{name}', factory='reported', params={'name': name}, engine='smt', twin=False, timeout=60,
                              group='reported, not swallowed', bounds=f'corrupt file {name!r} loaded via get_transforms + get_all_rules and via _check_merchant_migration'))
    return obs
