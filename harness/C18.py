"""C18 - a format string maps columns by position, and inspect's suggestion round-trips."""
import ast
import itertools
import random
from engine.ob import Obligation, post, reset_tally_caches

LEVEL = 'other'
EXPLANATION = ('Bounded symbolic execution (CrossHair + z3) of the real parse_format_string on format strings assembled from an '
               'enumerated arrangement of token kinds with SYMBOLIC spelling (custom names, letter case of reserved names, blanks '
               'around tokens, {_} vs {*}, sign prefix, date-format text), against an oracle that reads positions off the arrangement; '
               'invalid arrangements must raise ValueError.  Round trip: the real auto_detect_csv_format (reader stubbed to yield a '
               'header row built from keyword stems with symbolic affixes) feeds the suggestion-building statements extracted from the '
               'current source of cmd_inspect, and the suggested string is fed to the real parse_format_string.')
FUNCTIONS = ['format_parser.parse_format_string', 'parsers.auto_detect_csv_format', 'commands.inspect.cmd_inspect (suggestion-building block, extracted by AST)']
BOUNDS = 'width <= 4 (quick) / 5 (thorough) columns; custom names <= 2 chars over (a,B,_,9); date format <= 2 chars; header affixes <= 1 char'
OUTSIDE = 'the csv module (reader stubbed), the rest of cmd_inspect (column analysis, printing)'
STUBS = ['tally.parsers.csv.reader yields the symbolic header row; tally.parsers.open is a no-op']
TRUSTED = []
ASSUMPTIONS = ['symbolic text is 7-bit ASCII']

KINDS = ['date', 'description', 'amount', 'location', 'c1', 'c2', 'skip']


def classify(arr, has_template):
    """Expected outcome of an arrangement, from the documented rules.  Returns 'ok' or 'error'."""
    for k in ['date', 'description', 'amount', 'location']:
        if arr.count(k) > 1:
            return 'error'
    if arr.count('c1') > 1 or arr.count('c2') > 1:
        return 'error'
    if 'date' not in arr or 'amount' not in arr:
        return 'error'
    has_desc = 'description' in arr
    customs = [k for k in arr if k in ('c1', 'c2')]
    if not has_desc and not customs:
        return 'error'
    if not has_desc and customs and not has_template:
        return 'error'
    return 'ok'


def fmt_ob(arr, template_refs, focus='spelling'):
    """arr: list of kinds.  template_refs: None | list of kinds referenced by the description template."""
    arr = list(arr)

    def core(n1='mer', n2='Ty', up=False, b1=0, b2=1, star=False, sign=0, df='', tcase=0):
        from tally.format_parser import parse_format_string, RESERVED_NAMES
        if n1.lower() in RESERVED_NAMES or n2.lower() in RESERVED_NAMES or n1.lower() == n2.lower():
            return post(True)        # spelled-alike names are covered by the duplicate arrangements
        toks = []
        for k in arr:
            if k == 'date':
                t = '{' + ('DATE' if up else 'date') + ((':' + df) if df else '') + '}'
            elif k == 'description':
                t = '{Description}' if up else '{description}'
            elif k == 'amount':
                t = '{' + ['', '-', '+'][sign] + ('Amount' if up else 'amount') + '}'
            elif k == 'location':
                t = '{location}'
            elif k == 'c1':
                t = '{' + n1 + '}'
            elif k == 'c2':
                t = '{' + n2 + '}'
            else:
                t = '{*}' if star else '{_}'
            toks.append(' ' * b1 + t + ' ' * b2)
        text = ','.join(toks)
        templ = None
        if template_refs is not None:
            names = {'c1': n1.lower(), 'c2': n2.lower(), 'zz': 'zz'}
            templ = ' / '.join('{' + names[r] + '}' for r in template_refs)
        expect = classify(arr, templ is not None)
        if expect == 'ok' and templ is not None:
            has_desc = 'description' in arr
            avail = set() if has_desc else {k for k in arr if k in ('c1', 'c2')}
            if any(r not in avail for r in template_refs):
                expect = 'error'
        # the same format string has just been parsed with a template that names every captured column (and with none):
        # what was accepted then must not decide what is accepted now
        good = ' '.join('{' + nm + '}' for k, nm in (('c1', n1.lower()), ('c2', n2.lower())) if k in arr)
        for prime in ((good or None), None):
            try:
                parse_format_string(text, prime)
            except ValueError:
                pass
        if tcase and templ is not None and expect == 'ok':
            # the template spells its references in another letter case than the columns were captured under: rejecting that is fine,
            # accepting it is fine too - but then every row must be read with the template filled in (accepted => usable)
            templ2 = ' / '.join('{' + (names[r].upper() if tcase == 1 else names[r].title()) + '}' for r in template_refs)
            if templ2 != templ:
                try:
                    spec2 = parse_format_string(text, templ2)
                except ValueError:
                    return post(True)
                from harness import C05
                from tally import parsers
                cells = {'date': '01/02/2024', 'description': 'D', 'amount': '5', 'location': 'L', 'c1': 'V1', 'c2': 'V2', 'skip': 'x'}
                spec2.has_header = False
                log = []
                saved = C05._install([[cells[k] for k in arr]], log, [True], [0], [5.0])
                try:
                    try:
                        out = parsers.parse_generic_csv('f.csv', spec2, [], source_name='S')
                    except (KeyError, IndexError, AttributeError, ValueError):
                        return post(False)
                finally:
                    C05._restore(saved)
                want = ' / '.join({'c1': 'V1', 'c2': 'V2'}[r] for r in template_refs)
                return post(len(out) == 1 and out[0]['raw_description'] == want)
        try:
            spec = parse_format_string(text, templ)
        except ValueError:
            return post(expect == 'error')
        if expect == 'error':
            return post(False)
        ok = spec.date_column == arr.index('date') and spec.amount_column == arr.index('amount')
        ok = ok and spec.description_column == (arr.index('description') if 'description' in arr else None)
        ok = ok and spec.location_column == (arr.index('location') if 'location' in arr else None)
        ok = ok and spec.date_format == (df if df else '%m/%d/%Y')
        ok = ok and spec.negate_amount == (sign == 1) and spec.abs_amount == (sign == 2)
        customs = {}
        if 'c1' in arr:
            customs[n1.lower()] = arr.index('c1')
        if 'c2' in arr:
            customs[n2.lower()] = arr.index('c2')
        if 'description' in arr:
            ok = ok and (spec.extra_fields or {}) == customs and not spec.custom_captures
        else:
            ok = ok and (spec.custom_captures or {}) == customs and not spec.extra_fields
        return post(ok)

    def ob_spelling(up: bool, lead: bool, trail: bool, star: bool, sign: int, tcase: int) -> bool:
        """
        pre: 0 <= sign <= 2 and 0 <= tcase <= 2
        post: _
        """
        if template_refs is None:
            tcase = 0
        return core(up=up, b1=1 if lead else 0, b2=2 if trail else 0, star=star, sign=sign, tcase=tcase)

    def ob_names(n1: str) -> bool:
        """
        pre: 1 <= len(n1) <= 2 and all(c in 'aB9_' for c in n1)
        post: _
        """
        if 'c1' in arr:
            return core(n1=n1, n2='Ty')
        return core(n1='mer', n2=n1)

    def ob_datefmt(df: str, up: bool) -> bool:
        """
        pre: len(df) <= 2 and all(c not in ',}' for c in df)
        post: _
        """
        return core(df=df, up=up)
    return {'spelling': ob_spelling, 'names': ob_names, 'datefmt': ob_datefmt}[focus]


def arrangements(tier, seed):
    rng = random.Random(1800 + seed)
    out = []
    # valid and invalid hand-picked
    hand = [(['date', 'description', 'amount'], None), (['amount', 'skip', 'date', 'description', 'location'][:5], None),
            (['date', 'c1', 'c2', 'amount'], ['c2', 'c1']), (['date', 'c1', 'amount'], None), (['date', 'description', 'amount', 'c1'], None),
            (['date', 'c1', 'amount'], ['c1', 'zz']), (['description', 'amount'], None), (['date', 'description'], None), (['date', 'amount', 'skip'], None),
            (['date', 'description', 'amount', 'c1'], ['c1'])]
    out.extend(hand)
    # every duplicate of a reserved field: first copy at index 0 or 1, second copy later
    for r in ['date', 'description', 'amount', 'location']:
        base = [k for k in ['date', 'description', 'amount'] if k != r]
        out.append(([r] + base + [r], None))
        out.append(([base[0], r] + base[1:] + [r], None))
    out.append((['c1', 'date', 'description', 'amount', 'c1'][:5], None))
    width_max = 4 if tier == 'quick' else 5
    pool = []
    for w in range(2, width_max + 1):
        for arr in itertools.product(KINDS, repeat=w):
            pool.append(list(arr))
    rng.shuffle(pool)
    k = 24 if tier == 'quick' else 90
    for arr in pool[:k]:
        customs = [x for x in arr if x in ('c1', 'c2')]
        refs = sorted(set(customs)) if (customs and 'description' not in arr and rng.random() < 0.7) else None
        out.append((arr, refs))
    seen = set()
    uniq = []
    for arr, refs in out:
        key = (tuple(arr), tuple(refs) if refs else None)
        if key not in seen:
            seen.add(key)
            uniq.append((arr, refs))
    return uniq


# ------------------------------------------------------------------------------------------ inspect round trip
def extract_suggester():
    """Compile the suggestion-building statements of cmd_inspect (from `max_col = ...` to `format_str = ...`) from the
    CURRENT source into a function suggest(spec) -> format string."""
    import inspect as _inspect
    from tally.commands import inspect as mod
    src = _inspect.getsource(mod)
    tree = ast.parse(src)
    fn = [n for n in tree.body if isinstance(n, ast.FunctionDef) and n.name == 'cmd_inspect'][0]
    block = None
    for node in ast.walk(fn):
        if isinstance(node, ast.Try):
            names = [t.id for st in node.body if isinstance(st, ast.Assign) for t in st.targets if isinstance(t, ast.Name)]
            if 'format_str' in names and 'spec' in names:
                block = node.body
    if block is None:
        raise RuntimeError('cannot locate the suggestion-building block in cmd_inspect')
    start = end = None
    for i, st in enumerate(block):
        if isinstance(st, ast.Assign) and any(isinstance(t, ast.Name) and t.id == 'spec' for t in st.targets):
            start = i + 1
        if isinstance(st, ast.Assign) and any(isinstance(t, ast.Name) and t.id == 'format_str' for t in st.targets):
            end = i
    body = [st for st in block[start:end + 1] if not (isinstance(st, ast.Expr) and isinstance(st.value, ast.Call) and getattr(st.value.func, 'id', '') == 'print')]
    f = ast.FunctionDef(name='suggest', args=ast.arguments(posonlyargs=[], args=[ast.arg(arg='spec')], kwonlyargs=[], kw_defaults=[], defaults=[]),
                        body=body + [ast.Return(value=ast.Name(id='format_str', ctx=ast.Load()))], decorator_list=[], type_params=[])
    m = ast.Module(body=[f], type_ignores=[])
    ast.fix_missing_locations(m)
    ns = dict(vars(mod))          # the block may call helpers of its own module
    exec(compile(m, '<cmd_inspect suggestion block>', 'exec'), ns)
    return ns['suggest']


HEADER_SETS = [
    ['Date', 'Description', 'Amount'], ['Trans Date', 'Payee', 'Debit', 'City'], ['Posting Date', 'Memo', 'Charge', 'State'],
    ['Date', 'Charge Description', 'Amount'], ['Payment Date', 'Description', 'Amount'], ['Id', 'Date', 'Merchant Name', 'Transaction Amount', 'Region'],
    ['Debit Memo', 'Date', 'Payment'], ['Name', 'Amount', 'Date', 'Location'], ['Description', 'Date', 'Amount Date', 'City/State'],
    ['Memo', 'Notes', 'Date', 'Debit'],
]


DATE_STYLES = ['01/05/2025', 'Jan 05, 2025', '2025-01-05', '05.01.2025', 'January 5, 2025']


class _HdrReader:
    def __init__(self, hdr, date_style=0, base=None):
        self.hdr = hdr
        self.date_style = date_style
        self.base = base if base is not None else hdr      # concrete names the data cells are chosen from (the affixes do not change a column's kind)

    def reader(self, f, *a, **k):
        rows = [list(self.hdr)]
        for n in range(3):          # data rows: a date-looking cell in every column whose header mentions a date, text/amount elsewhere
            rows.append([DATE_STYLES[self.date_style] if 'date' in h.lower() else ('%d.50' % (n + 1) if any(w in h.lower() for w in ('amount', 'debit', 'charge', 'payment')) else 'TEXT %d' % n) for h in self.base])
        return iter(rows)

    def __getattr__(self, n):
        import csv
        return getattr(csv, n)


class _Open:
    def __init__(self, *a, **k):
        pass

    def __enter__(self):
        return self

    def __exit__(self, *a):
        return False


def roundtrip(hi, perm, date_style=0):
    base = [HEADER_SETS[hi][i] for i in perm]
    suggest = extract_suggester()

    def ob(p0: str, p1: str, s0: str, s1: str) -> bool:
        """
        pre: len(p0) <= 1 and len(p1) <= 1 and len(s0) <= 1 and len(s1) <= 1
        post: _
        """
        from tally import parsers
        from tally.format_parser import parse_format_string
        hdr = list(base)
        hdr[0] = p0 + hdr[0] + s0
        hdr[-1] = p1 + hdr[-1] + s1
        saved = (parsers.__dict__.get('open'), parsers.csv)
        parsers.open = _Open
        parsers.csv = _HdrReader(hdr, date_style, base)
        try:
            try:
                spec = parsers.auto_detect_csv_format('x.csv')
            except ValueError:
                return post(True)           # nothing detected => nothing suggested
        finally:
            parsers.csv = saved[1]
            if saved[0] is None:
                parsers.__dict__.pop('open', None)
            else:
                parsers.open = saved[0]
        text = suggest(spec)
        try:
            fs = parse_format_string(text)
        except ValueError:
            return post(False)
        ok = fs.date_column == spec.date_column and fs.description_column == spec.description_column
        ok = ok and fs.amount_column == spec.amount_column and fs.location_column == spec.location_column
        ok = ok and len({spec.date_column, spec.description_column, spec.amount_column}) == 3
        return post(ok)
    return ob


def obligations(tier, seed):
    q = tier == 'quick'
    obs = []
    what = {'spelling': 'symbolic letter case of reserved names, leading/trailing blanks, {_} vs {*}, sign prefix',
            'names': 'one symbolic custom name (1-2 chars over a,B,9,_), the other fixed', 'datefmt': 'symbolic date-format text (<= 2 chars without , or }) and letter case'}
    for i, (arr, refs) in enumerate(arrangements(tier, seed)):
        focuses = ['spelling']
        if ('c1' in arr or 'c2' in arr) and (len(arr) <= 3 or not q):
            focuses.append('names')
        if 'date' in arr and i % 4 == 0:
            focuses.append('datefmt')
        for fo in focuses:
            obs.append(Obligation(id=f'fmt-{i:03d}-{fo}', factory='fmt_ob', params={'arr': arr, 'template_refs': refs, 'focus': fo}, timeout=120 if q else 600,
                                  group='format string -> column positions', bounds=f'arrangement {arr} template refs {refs}: {what[fo]}'))
    rng = random.Random(1900 + seed)
    for hi, hs in enumerate(HEADER_SETS):
        perms = [tuple(range(len(hs)))]
        allp = list(itertools.permutations(range(len(hs))))
        rng.shuffle(allp)
        perms += allp[:(1 if q else 5)]
        for pi, perm in enumerate(dict.fromkeys(perms)):
            obs.append(Obligation(id=f'roundtrip-{hi}-{pi}', factory='roundtrip', params={'hi': hi, 'perm': list(perm), 'date_style': (hi + pi) % len(DATE_STYLES)}, timeout=120 if q else 600,
                                  group='inspect suggestion round-trips',
                                  bounds=f'header row {[hs[i] for i in perm]} with symbolic 0-1 char prefix/suffix on the first and last header; 3 data rows, date style ' + DATE_STYLES[(hi + pi) % len(DATE_STYLES)]))
    return obs
