"""C04 - expressions mean what the reference says."""
import random
from engine.ob import Obligation, post, reset_tally_caches, inject

LEVEL = 'other'
EXPLANATION = ('Bounded symbolic execution (CrossHair + z3) of tally\'s real parser + TransactionEvaluator on expression '
               'shapes whose leaves (description, amount, string and numeric constants, field, source, date parts, '
               'supplemental rows) are symbolic, compared with an independent reference interpreter (harness/ref.py) '
               'written from the user reference; plus the metamorphic laws of the property on the same symbolic inputs.')
FUNCTIONS = ['tally.expr_parser.parse_expression', 'tally.expr_parser.evaluate_transaction', 'tally.expr_parser.matches_transaction',
             'tally.expr_parser.TransactionEvaluator.*', 'tally.expr_parser.TransactionContext._fn_*']
BOUNDS = 'description <= 2 (quick) / 3 (thorough) ASCII chars, string constants / field / source <= 1-2, integer amounts and constants, dates in 2024, <= 2 supplemental rows'
OUTSIDE = 'fuzzy() (difflib loops); symbolic regex patterns (patterns are concrete); float rounding; non-ASCII case mapping'
STUBS = []
TRUSTED = ['ast.parse maps a literal to an ast.Constant holding it', 'harness/ref.py reads the reference correctly']
ASSUMPTIONS = ['symbolic text is 7-bit ASCII']

DLEN = 2
SLEN = 1

# ------------------------------------------------------------------ hand-written shapes (quick tier)
SHAPES = [
    # boolean logic and short-circuit
    'contains("@P1") and amount > 9001',
    'contains("@P1") or amount > 9001',
    'not contains("@P1")',
    'not (contains("@P1") and amount > 9001)',
    'amount > 9001 or unknown_var',
    'amount > 9001 and unknown_var',
    'not (9001 < amount < 9002)',
    '9001 < amount <= 9002',
    '9001 <= amount < 9002 < 50',
    'amount == 9001 or amount != 9002',
    '(amount > 9001) == (amount > 9002)',
    # strings
    'description == "@P1"',
    'description != "@P1"',
    '"@P1" in description',
    '"@P1" not in description',
    'startswith("@P1")',
    'anyof("@P1", "@P2")',
    'normalized("@P1")',
    'contains(field.k, "@P1")',
    'startswith(field.k, "@P1") or source == "@P2"',
    'field.k == "@P1" and source != "@P2"',
    'regex("^A.?B")',
    'regex(field.k, "[0-9]$")',
    'regex("A\\d") or regex("A\\D")',
    'regex("^\\s") == regex("^\\S")',
    'extract("(\\d)") == "@P1"',
    'description.lower() == "@P1"',
    'description.upper().startswith("@P1")',
    'description.strip() == "@P1"',
    'description.replace("@P1", "@P2") == "@P2"',
    'description.endswith("@P1")',
    # extraction / transforms
    'extract("(A)(B)?") == "@P1"',
    'split("-", 9001) == "@P2"',
    'split(field.k, ",", 0) == "@P2"',
    'substring(9001, 9002) == "@P1"',
    'trim(field.k) == "@P1"',
    'trim() == "@P1"',
    'uppercase(description) == "@P1"',
    'lowercase(field.k) == "@P1"',
    'strip_prefix(description, "@P1") == "@P2"',
    'strip_suffix(description, "@P1") == "@P2"',
    'regex_replace(description, "A+", "x") == "@P2"',
    'exists(field.k) and not exists(field.nope)',
    'exists(description)',
    # arithmetic
    'amount / 9001 > 9002',
    'amount % 9001 == 9002',
    'abs(amount) > 9001',
    '-amount < 9001 * 2 + 1',
    'round(amount / 9001) == 9002',
    'amount - 9001 if amount > 9002 else amount + 9001',
    # dates
    'month == 9001',
    'day >= 9001 and year == 2024',
    'weekday >= 5',
    'date >= "2024-06-15"',
    '"2024-03-10" < date <= "2024-09-20"',
    'date == "2024-02-29"',
    'txn.month == 9001 and txn.amount > 9002',
    'field.amount > 9001 and field.description == "@P1"',
    # supplemental rows
    'any(r.amount == amount for r in orders)',
    'all(r.amount > 9001 for r in orders)',
    'len([r for r in orders if r.item == "@P1"]) > 0',
    'sum(r.amount for r in orders) > 9001',
    'next((r.item for r in orders if r.amount == amount), "@P1") == "@P2"',
    '(m := [r for r in orders if r.amount > 9001]) and m[0].item == "@P1"',
    'len([1 for r in orders for q in orders if r.amount < q.amount]) == 9001',
    'max(r.amount for r in orders) > 9001 if len(orders) > 0 else false',
    'orders[0].item == "@P1"',
    'any((hit := r).amount == amount for r in orders) and hit.item == "@P1"',
    'len([w for r in orders if (w := r.amount) > 9001]) > 0 and w > 9002',
    'regex("^A") and unknown_var',
    'regex("^A") or unknown_var',
    'normalized("@P1") and field.nope == "x"',
    'extract("(A)") == "A" or field.nope == "x"',
    'contains("@P1") and regex("B$") and amount > 9001',
    'any(r.missing == "x" for r in orders) or contains("@P1")',
    'min(amount, 9001) == max(9002, amount)',
    # a later `for` clause whose iterable depends on an earlier loop variable (spelled with capitals) or on a name bound by := in an earlier `if`
    'len([s.amount for R in orders for s in [t for t in orders if t.amount >= R.amount]]) == 9001',
    'sum(s.amount for Row in orders for s in [t for t in orders if t.amount > Row.amount]) > 9001',
    '[q.item for r in orders for q in [t for t in orders if t.amount == r.amount]][0] == "@P1"',
    'any(s.item == "@P1" for Row in orders if (lim := Row.amount) > 9001 for s in [t for t in orders if t.amount >= lim])',
]

# ------------------------------------------------------------------ an evaluation that FAILED must not influence the next one
FAIL_PAIRS = [
    ('(month := 99) and field.nope == "x"', 'month == 9001', None),
    ('(total := 72) > 0 and amount > "x"', 'total > 9001', {'total': 500}),
    ('any((zz := r.amount) > 0 and r.nope == 1 for r in orders)', 'zz == 9001 or contains("@P1")', None),
    ('len([r for r in orders if r.amount >= 0 and r.nope == 1]) > 0', 'r == 1 or contains("@P1")', None),
    ('(description := "hijack") != "" and amount > "x"', 'contains("@P1")', None),
]


def after_failure(i, dlen=2, slen=1):
    first, second, variables = FAIL_PAIRS[i]
    global DLEN, SLEN
    DLEN, SLEN = dlen, slen

    def ob(desc: str, amount: int, s1: str, n1: int, m: int) -> bool:
        """
        pre: len(desc) <= DLEN and len(s1) <= SLEN and 1 <= m <= 12
        post: _
        """
        from datetime import date
        from tally import expr_parser
        from harness import ref
        reset_tally_caches()
        txn = {'description': desc, 'amount': amount, 'field': {'k': 'kv'}, 'source': 'S', 'date': date(2024, m, 14)}
        rows = {'orders': [{'amount': 5, 'item': 'x'}, {'amount': 9, 'item': 'zz'}]}
        values = {'@P1': s1, 9001: n1}
        try:
            expr_parser.evaluate_transaction(first, dict(txn), data_sources=rows)
            failed = False
        except expr_parser.ExpressionError:
            failed = True
        inject(second, values)
        try:
            got = ('ok', expr_parser.evaluate_transaction(second, dict(txn), variables=dict(variables) if variables else None, data_sources=rows))
        except expr_parser.ExpressionError:
            got = ('err', None)
        try:
            exp = ('ok', ref.ref_eval_src(second, dict(txn), variables=dict(variables) if variables else None, data_sources=rows, values=values))
        except ref.RefError:
            exp = ('err', None)
        return post(failed and got == exp)
    return ob


# ------------------------------------------------------------------ generator (thorough tier)
BOOL_ATOMS = ['contains("@P1")', 'startswith("@P2")', 'amount > 9001', 'amount <= 9002', 'description == "@P1"',
              '"@P2" in description', 'source == "@P1"', 'field.k != "@P2"', 'exists(field.k)', 'anyof("@P1", "@P2")',
              '9001 < amount < 9002', 'amount % 9001 == 0', 'month == 9001', 'unknown_var', 'amount / 9002 > 1',
              'normalized("@P1")', 'regex("A|b")']


def gen_shapes(k, seed):
    rng = random.Random(4000 + seed)
    out = []
    forms = ['not ({a})', '{a} and {b}', '{a} or {b}', 'not ({a} and {b})', 'not ({a} or {b})', '({a} and {b}) or {c}',
             '{a} and ({b} or {c})', '{a} if {b} else {c}', 'not not ({a})', '({a}) == ({b})', '({a}) != ({b})']
    seen = set()
    while len(out) < k:
        f = rng.choice(forms)
        a, b, c = rng.sample(BOOL_ATOMS, 3)
        s = f.format(a=a, b=b, c=c)
        if s not in seen:
            seen.add(s)
            out.append(s)
    return out


def _uses(shape, *names):
    return any(n in shape for n in names)


def _run(shape, values, txn, rows):
    """(kind, value) from tally's real evaluator."""
    from tally import expr_parser
    inject(shape, values)
    try:
        v = expr_parser.evaluate_transaction(shape, dict(txn), data_sources=rows)
        if hasattr(v, '__next__'):
            v = list(v)
        return ('ok', v)
    except expr_parser.ExpressionError:
        return ('err', None)


def _ref(shape, values, txn, rows):
    from harness import ref
    try:
        v = ref.ref_eval_src(shape, dict(txn), data_sources=rows, values=values)
        if hasattr(v, '__next__'):
            v = list(v)
        return ('ok', v)
    except ref.RefError:
        return ('err', None)


def _mk_inputs(shape, desc, amount, s1, s2, n1, n2, fk, src, m, d, ra, rb, ri):
    from datetime import date
    if not _uses(shape, 'month', 'day', 'date', 'year'):
        m, d = 7, 14
    txn = {'description': desc, 'amount': amount, 'field': {'k': fk}, 'source': src, 'date': date(2024, m, d)}
    rows = None
    if 'orders' in shape:
        rows = {'orders': [{'amount': ra, 'item': ri}, {'amount': rb, 'item': 'zz'}]}
    values = {'@P1': s1, '@P2': s2, 9001: n1, 9002: n2}
    return txn, rows, values


def versus_reference(shape, dlen=2, slen=1, real=False):
    global DLEN, SLEN
    DLEN, SLEN = dlen, slen
    if real:
        return _versus_reference_real(shape)

    def ob(desc: str, amount: int, s1: str, s2: str, n1: int, n2: int, fk: str, src: str, m: int, d: int,
           ra: int, rb: int, ri: str) -> bool:
        """
        pre: len(desc) <= DLEN and len(s1) <= SLEN and len(s2) <= SLEN and len(fk) <= SLEN and len(src) <= SLEN and len(ri) <= SLEN
        pre: 1 <= m <= 12 and 1 <= d <= 28
        post: _
        """
        reset_tally_caches()
        txn, rows, values = _mk_inputs(shape, desc, amount, s1, s2, n1, n2, fk, src, m, d, ra, rb, ri)
        got = _run(shape, values, txn, rows)
        exp = _ref(shape, values, txn, rows)
        if got[0] != exp[0]:
            return post(False)
        if got[0] == 'err':
            return post(True)
        same = (type(got[1]) is type(exp[1]) or (isinstance(got[1], (int, float)) and isinstance(exp[1], (int, float)))) and got[1] == exp[1]
        return post(same)
    return ob


def _versus_reference_real(shape):
    """Division shapes: the amount is an exact real (CrossHair concretises int / int), constants stay integers."""
    def ob(amount: float, n1: int, n2: int) -> bool:
        """
        post: _
        """
        reset_tally_caches()
        txn, rows, values = _mk_inputs(shape, 'ab', amount, 'a', 'b', n1, n2, 'k', 's', 7, 14, 0, 0, '')
        got = _run(shape, values, txn, rows)
        exp = _ref(shape, values, txn, rows)
        if got[0] != exp[0]:
            return post(False)
        if got[0] == 'err':
            return post(True)
        return post(got[1] == exp[1])
    return ob


# ------------------------------------------------------------------ metamorphic laws
LAWS = [
    # (name, left, right)  - must agree in value-or-error for every input
    ('double-negation', 'not not (contains("@P1") and amount > 9001)', 'contains("@P1") and amount > 9001'),
    ('double-negation-chain', 'not not (9001 < amount < 9002)', '9001 < amount < 9002'),
    ('de-morgan-and', 'not (contains("@P1") and amount > 9001)', '(not contains("@P1")) or (not amount > 9001)'),
    ('de-morgan-or', 'not (startswith("@P1") or source == "@P2")', '(not startswith("@P1")) and (not source == "@P2")'),
    ('swap-and', 'contains("@P1") and amount > 9001', 'amount > 9001 and contains("@P1")'),
    ('swap-or', 'description == "@P1" or amount < 9001', 'amount < 9001 or description == "@P1"'),
    ('chain-is-conjunction', '9001 < amount < 9002', '9001 < amount and amount < 9002'),
    ('chain3-is-conjunction', '9001 <= amount <= 9002 <= 70', '9001 <= amount and amount <= 9002 and 9002 <= 70'),
    ('not-chain', 'not (9001 < amount < 9002)', 'not (9001 < amount) or not (amount < 9002)'),
    ('date-chain', '"2024-03-10" <= date <= "2024-09-20"', '"2024-03-10" <= date and date <= "2024-09-20"'),
    ('function-name-case', 'CONTAINS("@P1") and StartsWith("@P2")', 'contains("@P1") and startswith("@P2")'),
    ('variable-name-case', 'AMOUNT > 9001 and Description == "@P1" and MONTH == 7', 'amount > 9001 and description == "@P1" and month == 7'),
    ('field-name-case', 'Field.K == "@P1" or TXN.Amount > 9001', 'field.k == "@P1" or txn.amount > 9001'),
    ('anyof-is-or', 'anyof("@P1", "@P2")', 'contains("@P1") or contains("@P2")'),
    ('in-is-contains', '"@P1" in description', 'contains("@P1")'),
    ('ternary', 'amount > 9001 if contains("@P1") else amount < 9001', '(contains("@P1") and amount > 9001) or (not contains("@P1") and amount < 9001)'),
]


def law(name, left, right, flip_text=False, dlen=2, slen=1):
    global DLEN, SLEN
    DLEN, SLEN = dlen, slen

    def ob(desc: str, amount: int, s1: str, s2: str, n1: int, n2: int, fk: str, src: str, m: int, d: int) -> bool:
        """
        pre: len(desc) <= DLEN and len(s1) <= SLEN and len(s2) <= SLEN and len(fk) <= SLEN and len(src) <= SLEN
        pre: 1 <= m <= 12 and 1 <= d <= 28
        post: _
        """
        reset_tally_caches()
        txn, rows, values = _mk_inputs(left + right, desc, amount, s1, s2, n1, n2, fk, src, m, d, 0, 0, '')
        a = _run(left, values, txn, rows)
        if flip_text:
            # changing the letter case of ASCII text never changes the result
            txn2 = dict(txn)
            txn2['description'] = desc.swapcase()
            txn2['field'] = {'k': fk.swapcase()}
            txn2['source'] = src.swapcase()
            values2 = dict(values)
            values2['@P1'] = s1.swapcase()
            b = _run(right, values2, txn2, rows)
        else:
            b = _run(right, values, txn, rows)
        if a[0] == 'err' or b[0] == 'err':
            # laws are stated for error-free operands
            return post(a[0] == b[0] or name.startswith('swap') or name.startswith('de-morgan') or name in ('anyof-is-or', 'ternary'))
        return post(bool(a[1]) == bool(b[1]))
    return ob


CASE_SHAPES = ['contains("@P1")', 'startswith("@P1")', 'description == "@P1"', '"@P1" in description', 'anyof("@P1", "zz")',
               'normalized("@P1")', 'field.k == "@P1"', 'source != "@P1"', 'regex("a.B")', 'contains(field.k, "@P1")']


def obligations(tier, seed):
    obs = []
    q = tier == 'quick'
    dl, sl = (2, 1) if q else (3, 2)
    to = 120 if q else 900
    shapes = list(SHAPES)
    if not q:
        shapes += gen_shapes(120, seed)
    else:
        shapes += gen_shapes(12, seed)
    for i, sh in enumerate(shapes):
        if ' / ' in sh:
            obs.append(Obligation(id=f'ref-{i:03d}', factory='versus_reference', params={'shape': sh, 'real': True}, timeout=to, reals=True,
                                  group='agreement with the reference interpreter',
                                  bounds=f'shape {sh!r}; amount an exact real, integer constants symbolic, text concrete'))
            continue
        obs.append(Obligation(id=f'ref-{i:03d}', factory='versus_reference', params={'shape': sh, 'dlen': dl, 'slen': sl}, timeout=to,
                              group='agreement with the reference interpreter',
                              bounds=f'shape {sh!r}; description <= {dl}, string leaves <= {sl} ASCII chars, integer leaves, month/day symbolic where used, 2 supplemental rows with symbolic amount/item where used'))
    for (name, l, r) in LAWS:
        obs.append(Obligation(id=f'law-{name}', factory='law', params={'name': name, 'left': l, 'right': r, 'dlen': dl, 'slen': sl}, timeout=to,
                              group='metamorphic laws', bounds=f'{l!r} vs {r!r}; same bounds'))
    for i in range(len(FAIL_PAIRS)):
        obs.append(Obligation(id=f'after-failure-{i}', factory='after_failure', params={'i': i, 'dlen': dl, 'slen': sl}, timeout=to, group='agreement with the reference interpreter',
                              bounds=f'{FAIL_PAIRS[i][1]!r} evaluated right after {FAIL_PAIRS[i][0]!r} failed; description <= {dl}, constant <= {sl}, integer leaves, month symbolic'))
    for i, sh in enumerate(CASE_SHAPES):
        obs.append(Obligation(id=f'case-{i}', factory='law', params={'name': 'text-case', 'left': sh, 'right': sh, 'flip_text': True, 'dlen': dl, 'slen': sl},
                              timeout=to, group='metamorphic laws', bounds=f'{sh!r} on text vs the same text with every ASCII letter case-swapped'))
    return obs
