"""C13 - the report's in-browser classification equals the command-line classification (Engine B)."""
import json
import os
import subprocess
import tempfile
import time
from engine.ob import REPO_SRC  # noqa: E402
from engine.ob import Obligation

LEVEL = 'translation_validation'
EXPLANATION = ('Translation validation: the classification functions of classification.py (Python AST) and of the '
               'classification block of spending_report.js (ESTree from node\'s bundled acorn) are turned into z3 terms '
               'on every run; one query per output asks for an (amount, tag list) on which the two programs differ. '
               'unsat = equivalent within the bounds; a model is replayed on the real Python function and on the real JS under node.')
FUNCTIONS = ['classification.get_tags_lower', 'classification.categorize_amount', 'classification.is_excluded_from_spending',
             'classification.calculate_cash_flow', 'spending_report.js getTagsLower', 'categorizeAmount', 'isExcludedFromSpending',
             'calculateCashFlow']
BOUNDS = 'amount: every IEEE-754 double; tags: null/absent or <= 3 (quick) / 8 (thorough) tags of <= 10 / 24 ASCII characters'
OUTSIDE = 'non-ASCII tags (JS toLowerCase vs Python lower differ for a few code points); Python ints beyond 2^53; non-string tags'
STUBS = []
TRUSTED = ['engine/smt/symexec.py (translator, validated against tests/test_classification.py inputs)', 'acorn parser bundled with node 20']
ASSUMPTIONS = ['tags are ASCII strings']

PY = REPO_SRC + '/tally/classification.py'
JS = REPO_SRC + '/tally/spending_report.js'
BUCKETS = [('income', 'income'), ('investment', 'investment'), ('transfer_in', 'transferIn'),
           ('transfer_out', 'transferOut'), ('spending', 'spending'), ('credits', 'credits')]


def run_js(calls):
    """Runs the real JS functions under node.  calls: list of (fname, [args]) -> list of results."""
    from engine.smt import symexec as S
    js = S.JsModule(JS)
    src = js.source_for(set(js.funcs))
    prog = src + '\nconst __calls = ' + json.dumps(calls).replace('NaN', 'NaN') + ';\n'
    prog += ('const __fns = {%s};\n' % ', '.join(f'{n}: {n}' for n in js.funcs))
    prog += ('const __enc = (v) => (typeof v === "number") ? (Number.isNaN(v) ? "NaN" : (v === Infinity ? "Infinity" : (v === -Infinity ? "-Infinity" : (Object.is(v, -0) ? "-0" : v)))) : v;\n'
             'const __out = __calls.map(([f, a]) => { let r; try { r = __fns[f](...a.map(x => (typeof x === "string" && x.startsWith("@num:")) ? Number(x.slice(5)) : x)); }'
             ' catch (e) { return {"__threw__": String(e)}; }'
             ' if (r && typeof r === "object") { const o = {}; for (const k of Object.keys(r)) o[k] = __enc(r[k]); return o; } return __enc(r); });\n'
             'console.log(JSON.stringify(__out));\n')
    with tempfile.NamedTemporaryFile('w', suffix='.js', delete=False) as f:
        f.write(prog)
        path = f.name
    try:
        p = subprocess.run(['node', path], capture_output=True, text=True, timeout=60)
        if p.returncode != 0:
            raise RuntimeError('node failed: ' + p.stderr[-500:])
        return json.loads(p.stdout)
    finally:
        os.unlink(path)


def _num_arg(a):
    return '@num:' + repr(float(a)).replace('inf', 'Infinity').replace('nan', 'NaN')


def _same(a, b):
    import math
    a = float(a)
    b = float(b)
    return (a == b) or (math.isnan(a) and math.isnan(b))


class Query:
    def __init__(self, kind, which=None, k=3, l=10, crosscheck=False):
        self.kind, self.which, self.k, self.l, self.crosscheck = kind, which, k, l, crosscheck

    # ---------------------------------------------------------------- symbolic side
    def query(self):
        from engine.smt import symexec as S
        try:
            return self._query()
        except S.Unsupported as e:
            # The current source uses a construct the translator cannot encode, so the solver cannot decide.
            # Before giving up (harness error), look for a concrete disagreement on a fixed grid: a reproduced
            # disagreement is a violation however it was found; none found => inconclusive (stated in the evidence).
            found = fallback_search(self.kind, self.which)
            if found is not None:
                return {'status': 'REFUTED', 'args': found, 'solver_queries': 0, 'solver_time_s': 0.0, 'paths': 0,
                        'message': 'translator: %s; disagreement found by the fallback differential grid' % e,
                        'extra': {'translator_unsupported': str(e), 'decided_by': 'fallback grid (not the solver)'}}
            return {'status': 'UNKNOWN', 'solver_queries': 0, 'solver_time_s': 0.0, 'paths': 0,
                    'message': 'translator cannot encode the current source (%s); the fallback differential grid found no disagreement: inconclusive' % e,
                    'extra': {'translator_unsupported': str(e), 'decided_by': 'nothing (fallback grid silent)'}}

    def _query(self):
        import z3
        from engine.smt import symexec as S
        t0 = time.time()
        py, js = S.PyModule(PY), S.JsModule(JS)
        s = z3.Solver()
        s.set('timeout', 240000)
        extra = {}
        if self.kind in ('bucket', 'excluded', 'reach'):
            amount, tags, cons = S.sym_inputs(self.k, self.l)
            s.add(*cons)
        if self.kind == 'bucket':
            pk, jk = self.which
            pr = py.call('categorize_amount', [amount, tags])
            jr = js.call('categorizeAmount', [amount, tags])
            # a bucket key that a program never sets reads as 0 (Python .get default / JS undefined -> no contribution)
            s.add(z3.Not(S.same_number(pr.get(pk, 0), jr.get(jk, 0))))
        elif self.kind == 'excluded':
            pr = py.call('is_excluded_from_spending', [tags])
            jr = js.call('isExcludedFromSpending', [tags])
            s.add(pr != jr)
        elif self.kind == 'cashflow':
            a, b, c = (z3.FP(n, S.F64) for n in ('income', 'spending', 'credits'))
            pr = py.call('calculate_cash_flow', [a, b, c])
            jr = js.call('calculateCashFlow', [a, b, c])
            s.add(z3.Not(S.same_number(pr, jr)))
        elif self.kind == 'reach':
            # vacuity guard: the bucket is non-zero for some input in BOTH programs
            pk, jk = self.which
            pr = py.call('categorize_amount', [amount, tags])
            jr = js.call('categorizeAmount', [amount, tags])
            s.add(z3.Not(z3.fpIsZero(S.fp(pr.get(pk, 0)))), z3.Not(z3.fpIsZero(S.fp(jr.get(jk, 0)))), z3.Not(z3.fpIsNaN(amount)))
        ts = time.time()
        r = str(s.check())
        st = time.time() - ts
        res = {'solver_queries': 1, 'solver_time_s': round(st, 3), 'paths': 1, 'extra': extra}
        expect_unsat = self.kind != 'reach'
        if self.crosscheck:
            cc = S.cross_check(s, r)
            extra['cross_check'] = cc
            res['solver_queries'] += len(cc)
            for name, v in cc.items():
                if v not in ('sat', 'unsat'):
                    extra.setdefault('cross_check_inconclusive', []).append(name)
                elif v != r:
                    res.update({'status': 'ERROR', 'message': 'solver disagreement: z3-py says %s, %s says %s' % (r, name, v)})
                    return res
        if r == 'unknown':
            res.update({'status': 'UNKNOWN', 'message': 'solver returned unknown'})
            return res
        if self.kind == 'reach':
            if r == 'sat':
                a, t = S.model_inputs(s.model(), amount, tags)
                extra['witness'] = {'amount': a, 'tags': t}
                res.update({'status': 'CONFIRMED', 'message': 'bucket reachable in both programs'})
            else:
                res.update({'status': 'ERROR', 'message': 'bucket %s not reachable: encoding is vacuous' % (self.which,)})
            return res
        if r == 'unsat':
            res.update({'status': 'CONFIRMED', 'message': 'unsat: no input distinguishes the two programs'})
            return res
        m = s.model()
        if self.kind == 'cashflow':
            import struct
            vals = []
            for v in (a, b, c):
                bv = m.eval(z3.fpToIEEEBV(m.eval(v, model_completion=True)), model_completion=True).as_long()
                vals.append(struct.unpack('<d', struct.pack('<Q', bv))[0])
            res.update({'status': 'REFUTED', 'args': {'income': vals[0], 'spending': vals[1], 'credits': vals[2]}, 'message': 'sat'})
        else:
            am, tg = S.model_inputs(m, amount, tags)
            args = {'amount': am, 'tags': tg}
            if self.kind == 'bucket':
                args['which'] = list(self.which)
            res.update({'status': 'REFUTED', 'args': args, 'message': 'sat'})
        return res

    # ---------------------------------------------------------------- concrete replay on the real code
    def __call__(self, **kw):
        import importlib
        import sys
        sys.path.insert(0, REPO_SRC)
        cl = importlib.import_module('tally.classification')
        if kw.get('grid_prefix') is not None:
            # found by the fallback grid: replay the same calls, in the same order, in one freshly loaded script
            return fallback_search(self.kind, kw.get('which', self.which), upto=int(kw['grid_prefix'])) is None
        if self.kind == 'cashflow':
            p = cl.calculate_cash_flow(kw['income'], kw['spending'], kw['credits'])
            j = run_js([('calculateCashFlow', [_num_arg(kw['income']), _num_arg(kw['spending']), _num_arg(kw['credits'])])])[0]
            return _same(p, j)
        amount, tags = kw['amount'], kw['tags']
        if self.kind == 'excluded':
            p = cl.is_excluded_from_spending(tags)
            j = run_js([('isExcludedFromSpending', [tags])])[0]
            if isinstance(j, dict) and '__threw__' in j:
                return False
            return bool(p) == bool(j)
        p = cl.categorize_amount(amount, tags)
        j = run_js([('categorizeAmount', [_num_arg(amount), tags])])[0]
        if isinstance(j, dict) and '__threw__' in j:
            return False
        pk, jk = kw.get('which', self.which)
        return _same(p.get(pk, 0.0), j.get(jk, 0))


def _grid(kind):
    """The fixed differential grid: list of (inputs dict, js call).  The same inputs appear twice so that state kept between
    calls of one loaded script shows up."""
    import itertools
    nan = float('nan')
    if kind == 'cashflow':
        return [({'income': a, 'spending': b, 'credits': c}, ('calculateCashFlow', [_num_arg(a), _num_arg(b), _num_arg(c)]))
                for a in (0.0, 1.5, -2.0, 1e308) for b in (0.0, 0.1, 3.0, -1e308) for c in (0.0, 0.2, nan)]
    specials = ['income', 'INCOME', 'Transfer', 'transfer', 'investment', 'InVestment']
    alike = ['incomes', 'income-tax', 'xincome', ' income', 'transfers', 'transferwise', 'investments', 'food', '']
    lists = [None, []] + [[t] for t in specials + alike]
    lists += [list(p) for p in itertools.permutations(['income', 'transfer', 'investment'], 2)]
    lists += [list(p) for p in itertools.permutations(['Income', 'TRANSFER', 'Investment'], 3)]
    lists += [[a, 'food'] for a in specials] + [['food', a] for a in alike] + [['Recurring', a] for a in specials] + [['FOOD', a, 'Misc'] for a in specials]
    lists = lists + lists
    if kind == 'excluded':
        return [({'amount': 1.0, 'tags': t}, ('isExcludedFromSpending', [t])) for t in lists]
    return [({'amount': a, 'tags': t}, ('categorizeAmount', [_num_arg(a), t])) for a in (-2.5, -0.0, 0.0, 3.0, nan, 0.125, -1.115, 2.675, 0.015, 100.125, 1e-9, -1e15) for t in (lists if a in (-2.5, 3.0) or a != a else lists[:len(lists) // 2:3])]


def _agree(cl, kind, which, inp, j):
    if isinstance(j, dict) and '__threw__' in j:
        return False            # the Python side returns a value for every input of the grid
    if kind == 'cashflow':
        return _same(cl.calculate_cash_flow(inp['income'], inp['spending'], inp['credits']), j)
    if kind == 'excluded':
        return bool(cl.is_excluded_from_spending(inp['tags'])) == bool(j)
    pk, jk = which
    return _same(cl.categorize_amount(inp['amount'], inp['tags']).get(pk, 0.0), j.get(jk, 0))


def fallback_search(kind, which, upto=None):
    """First grid entry on which Python and the JS (ONE node process for the whole grid: the page keeps the script loaded)
    disagree; `grid_prefix` = how many earlier calls the same script had served (the history matters if it keeps state)."""
    import importlib
    import sys
    sys.path.insert(0, REPO_SRC)
    cl = importlib.import_module('tally.classification')
    grid = _grid('bucket' if kind == 'reach' else kind)
    if upto is not None:
        grid = grid[:upto + 1]
    js = run_js([c for _, c in grid])
    for i, ((inp, _), j) in enumerate(zip(grid, js)):
        if upto is not None and i != upto:
            continue
        if not _agree(cl, 'bucket' if kind == 'reach' else kind, which, inp, j):
            out = dict(inp)
            if which:
                out['which'] = list(which)
            out['grid_prefix'] = i
            return out
    return None


def mk(kind, which=None, k=3, l=10, crosscheck=False):
    return Query(kind, tuple(which) if which else None, k, l, crosscheck)


def describe(o, kw):
    return 'inputs %r: Python and JavaScript disagree (%s %s)' % (kw, o.params.get('kind'), o.params.get('which'))


def validate_translator():
    """Push the inputs of tests/test_classification.py-style cases through the real functions and the encodings."""
    import z3
    import sys
    from engine.smt import symexec as S
    sys.path.insert(0, REPO_SRC)
    import importlib
    cl = importlib.import_module('tally.classification')
    py, js = S.PyModule(PY), S.JsModule(JS)
    cases = [(1000.0, ['income']), (-1000.0, ['Income']), (500.0, ['investment']), (100.0, ['transfer']), (-100.0, ['TRANSFER']),
             (50.0, []), (-50.0, ['refund']), (0.0, None), (12.5, ['income', 'transfer']), (-3.0, ['investment', 'transfer'])]
    n = 0
    amount, tags, cons = S.sym_inputs(3, 10)
    pr = py.call('categorize_amount', [amount, tags])
    jr = js.call('categorizeAmount', [amount, tags])
    jsreal = run_js([('categorizeAmount', [_num_arg(a), t]) for a, t in cases])
    for (a, t), jreal in zip(cases, jsreal):
        s = z3.Solver()
        s.add(*cons)
        s.add(amount == z3.FPVal(a, S.F64))
        if t is None:
            s.add(z3.Not(tags.present))
        else:
            s.add(tags.present, tags.n == len(t))
            for i, tg in enumerate(t):
                s.add(tags.items[i].len == len(tg))
                for j_, ch in enumerate(tg):
                    s.add(tags.items[i].chars[j_] == ord(ch))
        assert str(s.check()) == 'sat'
        m = s.model()
        real = cl.categorize_amount(a, t)
        for pk, jk in BUCKETS:
            ev = m.eval(S.fp(pr[pk]), model_completion=True)
            assert z3.is_true(m.eval(z3.fpEQ(ev, z3.FPVal(real[pk], S.F64)))), ('python encoding', a, t, pk)
            evj = m.eval(S.fp(jr[jk]), model_completion=True)
            assert z3.is_true(m.eval(z3.fpEQ(evj, z3.FPVal(float(jreal[jk]), S.F64)))), ('js encoding', a, t, jk)
            n += 1
    return n


class Validate:
    def query(self):
        t0 = time.time()
        from engine.smt import symexec as S
        try:
            n = validate_translator()
        except S.Unsupported as e:
            return {'status': 'UNKNOWN', 'message': 'translator cannot encode the current source (%s): nothing to validate' % e,
                    'solver_queries': 0, 'solver_time_s': 0.0, 'paths': 0}
        return {'status': 'CONFIRMED', 'message': f'{n} concrete outputs of the real functions reproduced by the encodings',
                'solver_queries': n, 'solver_time_s': round(time.time() - t0, 2), 'paths': n}

    def __call__(self, **kw):
        return True


def mk_validate():
    return Validate()


def obligations(tier, seed):
    q = tier == 'quick'
    k, l = (3, 10) if q else (8, 24)
    obs = []
    obs.append(Obligation(id='translator-validation', factory='mk_validate', engine='smt', twin=False, timeout=120,
                          group='translator validation', bounds='10 concrete (amount, tags) cases: encodings vs the real Python function and the real JS under node'))
    for pk, jk in BUCKETS:
        obs.append(Obligation(id=f'bucket-{pk}', factory='mk', params={'kind': 'bucket', 'which': [pk, jk], 'k': k, 'l': l, 'crosscheck': True},
                              engine='smt', twin=False, timeout=300, group='bucket equivalence',
                              bounds=f'all doubles x tag lists (null or <= {k} tags of <= {l} ASCII chars): value of {pk} / {jk}'))
        obs.append(Obligation(id=f'reach-{pk}', factory='mk', params={'kind': 'reach', 'which': [pk, jk], 'k': k, 'l': l},
                              engine='smt', twin=False, timeout=120, group='vacuity guard', bounds=f'bucket {pk} non-zero in both programs for some input'))
    obs.append(Obligation(id='excluded', factory='mk', params={'kind': 'excluded', 'k': k, 'l': l, 'crosscheck': True}, engine='smt', twin=False, timeout=300,
                          group='excluded-from-spending equivalence', bounds=f'all tag lists (null or <= {k} tags of <= {l} ASCII chars)'))
    obs.append(Obligation(id='cashflow', factory='mk', params={'kind': 'cashflow', 'crosscheck': not q}, engine='smt', twin=False, timeout=300,
                          group='cash-flow formula', bounds='all triples of doubles'))
    return obs


def extra_coverage(results):
    progs = 2
    return {'programs': progs, 'disagreements_checked': sum(1 for (i, tw), r in results.items() if not tw and r.get('status') == 'REFUTED')}
