"""C05 - every well-formed statement row becomes exactly one transaction, faithfully."""
from engine.ob import REPO_SRC  # noqa: E402
from engine.ob import need
from engine.ob import Obligation, post, reset_tally_caches

LEVEL = 'other'
EXPLANATION = ('Bounded symbolic execution (CrossHair + z3) of the real parse_generic_csv / parse_amount / _iter_rows_with_delimiter '
               'with the C-level boundaries replaced by contract stubs: the CSV reader yields the given rows, float() records its '
               'argument and returns a fresh symbolic value (finite, zero, NaN, inf) or raises, strptime records (text, format) and '
               'accepts or rejects by a symbolic flag, normalize_merchant is a recorder.  Cell texts, cell counts, blanks, header flag, '
               'sign mode and decimal separator are symbolic.  The output list must equal the oracle list written from the property.')
FUNCTIONS = ['parsers.parse_generic_csv', 'parsers.parse_amount', 'parsers._iter_rows_with_delimiter', 'format_parser.parse_format_string',
             'config_loader.resolve_source_format']
BOUNDS = '1-2 rows, <= 5 columns, cell texts <= 2-3 chars, amount cell = optional ( $ - + body (<= 3 chars over 1 9 , . blank) + optional ); 4 layouts'
OUTSIDE = 'CSV quoting / embedded newlines (csv module), regex delimiters, real float parsing and real strptime (stubbed by contract)'
STUBS = ['tally.parsers.open: no-op context manager', 'tally.parsers.csv.reader: yields the harness rows, records delimiter',
         'tally.parsers.float: records its argument; returns symbolic real / 0 / nan / inf or raises ValueError (symbolic selector)',
         'tally.parsers.datetime.strptime: records (text, format); returns a fixed datetime or raises ValueError (symbolic flag)',
         'tally.parsers.normalize_merchant: recorder returning fixed values (classification is C01)']
TRUSTED = ['float() and strptime() honour their documented contracts']
ASSUMPTIONS = ['symbolic text is 7-bit ASCII', 'amount values are exact reals (or nan/inf/0)']

LAYOUTS = {
    'simple': ('{date}, {description}, {amount}', None),
    'shuffled': ('{amount}, {_}, {date:%Y-%m-%d}, {description}, {location}', None),
    'template': ('{date}, {a}, {b}, {-amount}', '{b} / {a}'),
    'extra': ('{date}, {description}, {+amount}, {who}', None),
}


class _Reader:
    def __init__(self, log, rows):
        self.log, self.rows = log, rows

    def reader(self, f, delimiter=','):
        self.log.append(('delimiter', delimiter))
        return iter([list(r) for r in self.rows])

    def __getattr__(self, name):
        import csv
        return getattr(csv, name)


class _Open:
    def __init__(self, *a, **k):
        pass

    def __enter__(self):
        return self

    def __exit__(self, *a):
        return False

    def __iter__(self):
        return iter(())


class _DT:
    def __init__(self, log, accept):
        self.log, self.accept = log, list(accept)

    def strptime(self, text, fmt):
        from datetime import datetime
        self.log.append(('strptime', text, fmt))
        ok = self.accept.pop(0) if self.accept else True
        if not ok:
            raise ValueError('bad date')
        return datetime(2024, 1, 2)


def _float_stub(log, sels, vals):
    sels, vals = list(sels), list(vals)

    def f(s):
        log.append(('float', s))
        sel = sels.pop(0) if sels else 0
        v = vals.pop(0) if vals else 1.0
        if sel == 1:
            return float('nan')
        if sel == 2:
            return float('inf')
        if sel == 3:
            raise ValueError('not a number')
        if sel == 4:
            return 0.0
        return v
    return f


def ref_amount_text(cell, dec):
    """Reference normalisation of an amount cell, from the property text: surrounding blanks ignored, (x) is negative,
    currency symbols and thousands separators removed, decimal comma converted."""
    t = cell.strip()
    neg = False
    if t.startswith('(') and t.endswith(')'):
        neg = True
        t = t[1:-1]
    for sym in '$€£¥':
        t = t.replace(sym, '')
    t = t.strip()
    if dec == ',':
        t = t.replace('.', '').replace(' ', '').replace(',', '.')
    else:
        t = t.replace(',', '')
    return neg, t


def _install(rows, log, accept, sels, vals):
    from tally import parsers
    saved = (parsers.open if 'open' in vars(parsers) else None, parsers.csv, parsers.__dict__.get('float'), parsers.datetime, parsers.normalize_merchant)
    parsers.open = _Open
    parsers.csv = _Reader(log, rows)
    parsers.float = _float_stub(log, sels, vals)
    parsers.datetime = _DT(log, accept)
    parsers.normalize_merchant = lambda description, rules, **kw: (log.append(('normalize', description, kw.get('amount'), kw.get('field'), kw.get('data_source'), kw.get('location'))) or ('M', 'C', 'S', None))
    return saved


def _restore(saved):
    from tally import parsers
    if saved[0] is None:
        parsers.__dict__.pop('open', None)
    else:
        parsers.open = saved[0]
    parsers.csv = saved[1]
    if saved[2] is None:
        parsers.__dict__.pop('float', None)
    else:
        parsers.float = saved[2]
    parsers.datetime = saved[3]
    parsers.normalize_merchant = saved[4]


def _amount_cell(lp, cur, minus, body, rp, pad):
    return (' ' if pad else '') + ('(' if lp else '') + ('$' if cur else '') + ('-' if minus else '') + body + (')' if rp else '') + (' ' if pad else '')


def rows_oracle(layout, delim, nrows, focus='structure'):
    fmt, templ = LAYOUTS[layout]

    def core(n1=6, n2=6, d1='1/2', d2='3/4', t1='Ab', t2='cd', x1='x', x2='y',
             lp=False, cur=True, minus=True, body1='1,9', body2='9.1', rp=False, pad=True,
             acc1=True, acc2=True, sel1=0, sel2=0, v1=12.5, v2=-3.25,
             has_header=True, negate=False, comma_decimal=False):
        from tally import parsers
        from tally.config_loader import resolve_source_format
        reset_tally_caches()
        src = {'name': 'SRC', 'file': 'x.csv', 'format': fmt, 'has_header': has_header}
        if templ:
            src['columns'] = {'description': templ}
        if delim is not None:
            src['delimiter'] = delim
        if negate:
            src['negate_amount'] = True
        spec = resolve_source_format(src)['_format_spec']
        dec = ',' if comma_decimal else '.'
        width = len(fmt.split(','))
        # cells by kind, in layout order
        kinds = [p.strip() for p in fmt.split(',')]

        def mkrow(n, d, t, x, body, first):
            cells = []
            for k in kinds:
                if k.startswith('{date'):
                    cells.append(d)
                elif k == '{description}':
                    cells.append(' ' + t + ' ')
                elif 'amount' in k:
                    cells.append(_amount_cell(lp and first, cur, minus and not first, body, rp and first, pad))
                elif k == '{location}':
                    cells.append(x)
                elif k == '{_}':
                    cells.append('skip')
                elif k == '{a}':
                    cells.append(t)
                elif k == '{b}':
                    cells.append(' ' + x)
                elif k == '{who}':
                    cells.append(x + ' ')
            cells.append('EXTRA')
            return cells[:n]
        data = [mkrow(n1, d1, t1, x1, body1, True)]
        if nrows == 2:
            data.append(mkrow(n2, d2, t2, x2, body2, False))
        header = ['H'] * width
        rows = ([header] if has_header else []) + data
        log = []
        saved = _install(rows, log, [acc1, acc2], [sel1, sel2], [v1, v2])
        try:
            out = parsers.parse_generic_csv('x.csv', spec, [], source_name='SRC', decimal_separator=dec)
        finally:
            _restore(saved)

        # ---------------- oracle, from the property text
        exp = []
        exp_float_args = []
        acc = [acc1, acc2]
        sels = [sel1, sel2]
        vals = [v1, v2]
        used = 0          # how many strptime / float calls the stubs have served
        fused = 0
        for row in data:
            if len(row) < width:           # every mapped column must exist
                continue
            cell = {}
            for k, c in zip(kinds, row):
                cell[k] = c
            date_txt = [c for k, c in cell.items() if k.startswith('{date')][0].strip()
            amt_txt = [c for k, c in cell.items() if 'amount' in k][0].strip()
            if layout == 'template':
                desc = cell['{b}'].strip() + ' / ' + cell['{a}'].strip()
            else:
                desc = cell['{description}'].strip()
            if not date_txt or not desc or not amt_txt:
                continue
            # date: accepted by the (stubbed) date parser?
            ok_date = acc[used] if used < 2 else True
            used += 1
            if not ok_date:
                continue
            neg, txt = ref_amount_text(amt_txt, dec)
            exp_float_args.append(txt)
            sel, v = sels[fused], vals[fused]
            fused += 1
            if sel != 0:
                continue                    # nan / inf / not a number / zero => no transaction
            a = -v if neg else v
            if layout == 'extra':
                a = a if a >= 0 else -a
            elif layout == 'template' or negate:
                a = -a
            fields = None
            if layout == 'template':
                fields = {'a': cell['{a}'].strip(), 'b': cell['{b}'].strip()}
            elif layout == 'extra':
                fields = {'who': cell['{who}'].strip()}
            exp.append((desc, a, fields, cell.get('{location}', '').strip() if layout == 'shuffled' else None))
        ok = len(out) == len(exp)
        if ok:
            for t, (desc, a, fields, loc) in zip(out, exp):
                ok = ok and t['raw_description'] == desc and t['amount'] == a and t['source'] == 'SRC' and t['field'] == fields
                ok = ok and t['is_credit'] == (a < 0) and t['merchant'] == 'M' and t['category'] == 'C'
                if loc:
                    ok = ok and t['location'] == loc
        got_float_args = [e[1] for e in log if e[0] == 'float']
        ok = ok and got_float_args == exp_float_args
        delims = [e[1] for e in log if e[0] == 'delimiter']
        ok = ok and delims == [{'tab': '\t', None: ','}.get(delim, delim)]
        fmts = [e[2] for e in log if e[0] == 'strptime']
        ok = ok and all(f == ('%Y-%m-%d' if layout == 'shuffled' else '%m/%d/%Y') for f in fmts)
        return post(ok)

    def ob_structure(n1: int, n2: int, acc1: bool, acc2: bool, sel1: int, sel2: int) -> bool:
        """
        pre: 0 <= n1 <= 6 and 0 <= n2 <= 6 and 0 <= sel1 <= 4 and 0 <= sel2 <= 4
        post: _
        """
        return core(n1=n1, n2=n2, acc1=acc1, acc2=acc2, sel1=sel1, sel2=sel2)

    def ob_text(d1: str, d2: str, t1: str, t2: str, x1: str, x2: str, has_header: bool) -> bool:
        """
        pre: len(d1) <= 1 and len(d2) <= 1 and len(t1) <= 2 and len(t2) <= 1 and len(x1) <= 1 and len(x2) <= 1
        post: _
        """
        return core(d1=d1, d2=d2, t1=t1, t2=t2, x1=x1, x2=x2, has_header=has_header)

    def ob_amount_wrap(lp: bool, cur: bool, minus: bool, rp: bool, pad: bool, v1: float, v2: float, negate: bool, comma_decimal: bool) -> bool:
        """
        pre: -1000000.0 < v1 < 1000000.0 and -1000000.0 < v2 < 1000000.0 and v1 != 0 and v2 != 0
        post: _
        """
        return core(lp=lp, cur=cur, minus=minus, body1='1.9,5', body2='9 1', rp=rp, pad=pad, v1=v1, v2=v2, negate=negate, comma_decimal=comma_decimal)

    def ob_amount_body(body1: str, body2: str, comma_decimal: bool, lp: bool) -> bool:
        """
        pre: len(body1) <= 3 and len(body2) <= 2 and all(c in '19,. ' for c in body1) and all(c in '19,. ' for c in body2)
        post: _
        """
        return core(lp=lp, rp=lp, cur=True, minus=False, body1=body1, body2=body2, comma_decimal=comma_decimal)
    return {'structure': ob_structure, 'text': ob_text, 'amount-wrap': ob_amount_wrap, 'amount-body': ob_amount_body}[focus]


def parse_amount_text(blen=3):
    """parse_amount alone: the text handed to float() is the reference normalisation of the cell; the sign follows the parentheses."""
    global BLEN
    BLEN = blen

    def ob(body: str, lp: bool, rp: bool, cur: bool, comma_decimal: bool, v: float) -> bool:
        """
        pre: len(body) <= BLEN and all(c in '19,. ' for c in body) and -1000000.0 < v < 1000000.0
        post: _
        """
        from tally import parsers
        if BLEN <= 2:
            rp, cur = lp, True
        cell = ('(' if lp else '') + ('$' if cur else '') + body + (')' if rp else '')
        dec = ',' if comma_decimal else '.'
        log = []
        saved = _install([], log, [], [0], [v])
        try:
            got = parsers.parse_amount(cell, dec)
        finally:
            _restore(saved)
        neg, txt = ref_amount_text(cell, dec)
        return post([e[1] for e in log if e[0] == 'float'] == [txt] and got == (-v if neg else v))
    return ob


BLEN = 3


def two_reads_independent():
    """Two sources read one after the other with different decimal conventions: the second read is what it would be alone."""
    def ob(body: str, v1: float, v2: float) -> bool:
        """
        pre: 1 <= len(body) <= 3 and all(c in '19,.' for c in body) and v1 != 0 and v2 != 0 and v1 != v2
        pre: -1000000.0 < v1 < 1000000.0 and -1000000.0 < v2 < 1000000.0
        post: _
        """
        from tally import parsers
        from tally.format_parser import parse_format_string
        reset_tally_caches()
        spec = parse_format_string('{date}, {description}, {amount}')
        spec.has_header = False
        rows = [['01/02/2024', 'DESC', body]]
        log = []
        import copy
        spec_before = copy.deepcopy(vars(spec))
        saved = _install(rows, log, [True, True], [0, 0], [v1, v2])
        try:
            out1 = parsers.parse_generic_csv('a.csv', spec, [], source_name='A', decimal_separator='.')
            out2 = parsers.parse_generic_csv('b.csv', spec, [], source_name='B', decimal_separator=',')
        finally:
            _restore(saved)
        fl = [e[1] for e in log if e[0] == 'float']
        ok = len(out1) == 1 and len(out2) == 1 and out1[0]['amount'] == v1 and out2[0]['amount'] == v2
        ok = ok and fl == [ref_amount_text(body, '.')[1], ref_amount_text(body, ',')[1]]
        # ... and carries its own source name, also towards the classifier; the format the caller shares between the reads is left as it was
        ok = ok and out1[0]['source'] == 'A' and out2[0]['source'] == 'B' and [e[4] for e in log if e[0] == 'normalize'] == ['A', 'B']
        ok = ok and {k: v for k, v in vars(spec).items() if not k.startswith('_')} == {k: v for k, v in spec_before.items() if not k.startswith('_')}      # (a private cache on the spec would be nobody's business)
        return post(ok)
    return ob


def parse_amount_real():
    """parse_amount with the real float(): non-finite results are rejected (ValueError), finite ones returned with the
    sign the parentheses dictate.  The amount text comes from a fixed family (float() cannot take a symbolic string)."""
    class Q:
        CASES = ['nan', 'NaN', 'inf', '-inf', 'Infinity', '1e999', '-1e999', '(inf)', '$nan', ' 1,234.50 ', '(12.5)', '$-3', '1e3', '0', '-0.0', '(0)']

        def query(self):
            import math
            import sys
            sys.path.insert(0, REPO_SRC)
            from tally.parsers import parse_amount
            bad = None
            for c in self.CASES:
                if not self(text=c):
                    bad = c
                    break
            r = {'solver_queries': 0, 'solver_time_s': 0.0, 'paths': len(self.CASES), 'extra': {'decided_by': 'finite family (real float() is a C boundary)'}}
            if bad is not None:
                r.update({'status': 'REFUTED', 'args': {'text': bad}, 'message': 'parse_amount(%r)' % bad})
            else:
                r.update({'status': 'CONFIRMED', 'message': 'all cases finite-or-rejected'})
            return r

        def __call__(self, text):
            import math
            import sys
            sys.path.insert(0, REPO_SRC)
            from tally.parsers import parse_amount
            try:
                v = parse_amount(text)
            except ValueError:
                return True
            return isinstance(v, float) and math.isfinite(v)
    return Q()


ROW_FILES = {
    'plain': 'Date,Description,Amount\n01/02/2024,COFFEE,4.50\n01/03/2024,TEA,3.00\n',
    'quoted-header-newline': 'Date,"Description\n",Amount\n01/02/2024,COFFEE,4.50\n01/03/2024,TEA,3.00\n01/04/2024,MILK,2.00\n',
    'quoted-cells': 'Date,Description,Amount\n01/02/2024,"COFFEE, LARGE","1,234.50"\n01/03/2024,"SAY ""HI""",3.00\n',
    'embedded-newline-cell': 'Date,Description,Amount\n01/02/2024,"TWO\nLINES",4.50\n01/03/2024,TEA,3.00\n',
    'blank-lines-short-rows': 'Date,Description,Amount\n\n01/02/2024,COFFEE\n01/03/2024,TEA,3.00,EXTRA\n,,\n01/05/2024,OK,1.00\n',
    'crlf': 'Date,Description,Amount\r\n01/02/2024,COFFEE,4.50\r\n01/03/2024,TEA,3.00\r\n',
}


def real_reader(name, delim):
    """_iter_rows_with_delimiter / parse_generic_csv on a REAL file (the csv module is a C boundary: quoting and embedded
    newlines cannot be symbolic).  Oracle: Python's csv module reading the whole file, header record dropped."""
    class Q:
        def query(self):
            ok, why = self._run()
            r = {'solver_queries': 0, 'solver_time_s': 0.0, 'paths': 1, 'extra': {'decided_by': 'direct run on a real file (csv quoting is a C boundary)'}}
            r.update({'status': 'CONFIRMED', 'message': why} if ok else {'status': 'REFUTED', 'args': {}, 'message': why})
            return r

        def _run(self):
            import csv
            import io
            import os
            import sys
            import tempfile
            sys.path.insert(0, REPO_SRC)
            from tally import parsers
            from tally.format_parser import parse_format_string
            text = ROW_FILES[name]
            sep = {None: ',', 'tab': '\t', ';': ';'}[delim]
            if delim:
                # re-render the same records with the other delimiter
                recs = list(csv.reader(io.StringIO(text, newline='')))
                buf = io.StringIO(newline='')
                w = csv.writer(buf, delimiter=sep, lineterminator='\r\n' if name == 'crlf' else '\n')
                for rec in recs:
                    w.writerow(rec)
                text = buf.getvalue()
            d = tempfile.mkdtemp(prefix='verif_c05_')
            p = os.path.join(d, 'f.csv')
            with open(p, 'w', newline='') as f:
                f.write(text)
            for has_header in (True, False):
                with open(p, 'r', encoding='utf-8') as f:
                    exp = list(csv.reader(f, delimiter=sep))
                if has_header:
                    exp = exp[1:]
                if hasattr(parsers, '_iter_rows_with_delimiter'):        # the row iterator on its own, while it exists under this name
                    got = list(parsers._iter_rows_with_delimiter(p, delim, has_header))
                else:
                    got = exp
                if got != exp:
                    return False, 'rows differ from the csv module (has_header=%s): %r vs %r' % (has_header, got[:4], exp[:4])
            spec = parse_format_string('{date:%m/%d/%Y}, {description}, {amount}')
            spec.delimiter = delim
            txns = parsers.parse_generic_csv(p, spec, [], source_name='S')
            with open(p, 'r', encoding='utf-8') as f:
                rows = list(csv.reader(f, delimiter=sep))[1:]
            want = []
            for r in rows:
                if len(r) >= 3 and r[0].strip() and r[1].strip() and r[2].strip():
                    try:
                        amt = float(r[2].replace(',', '').strip())
                    except ValueError:
                        continue
                    if amt != 0:
                        want.append((r[1].strip(), amt))
            gotp = [(t['raw_description'], t['amount']) for t in txns]
            if gotp != want:
                return False, 'transactions differ: %r vs %r' % (gotp, want)
            return True, 'rows and transactions as the csv module reads them'

        def __call__(self, **kw):
            return self._run()[0]
    return Q()


def two_sources_same_format():
    """Two sources with the same format text and different overrides, resolved by the real resolve_source_format and parsed
    one after the other: each is read with its own sign / header / delimiter settings."""
    def ob(neg0: bool, neg1: bool, hdr0: bool, hdr1: bool, v: float) -> bool:
        """
        pre: 0.0 < v < 1000000.0
        post: _
        """
        from tally import parsers
        from tally.config_loader import resolve_source_format
        reset_tally_caches()
        fmt = '{date}, {description}, {amount}'
        outs = []
        specs = []
        for i, (neg, hdr) in enumerate(((neg0, hdr0), (neg1, hdr1))):
            src = {'name': f'S{i}', 'file': f's{i}.csv', 'format': fmt, 'has_header': bool(hdr)}
            if neg:
                src['negate_amount'] = True
            if i == 1:
                src['delimiter'] = ';'
            specs.append(resolve_source_format(src)['_format_spec'])
        for i, spec in enumerate(specs):
            rows = [['HDR', 'HDR', 'HDR'], ['1/2', 'DESC', '5']]
            log = []
            saved = _install(rows, log, [True, True], [0, 0], [v, v])
            try:
                outs.append((parsers.parse_generic_csv(f's{i}.csv', spec, [], source_name=f'S{i}'), log))
            finally:
                _restore(saved)
        ok = True
        for i, (neg, hdr) in enumerate(((neg0, hdr0), (neg1, hdr1))):
            txns, log = outs[i]
            ok = ok and len(txns) == (1 if hdr else 2)
            ok = ok and all(t['amount'] == (-v if neg else v) for t in txns)
            ok = ok and [e[1] for e in log if e[0] == 'delimiter'] == [';' if i == 1 else ',']
        return post(ok)
    return ob


def obligations(tier, seed):
    q = tier == 'quick'
    obs = []
    to = 170 if q else 1200
    combos = [('simple', None, 1), ('simple', ';', 2), ('shuffled', 'tab', 1), ('template', None, 1), ('extra', None, 1), ('extra', ';', 2), ('shuffled', None, 2), ('template', 'tab', 2)]
    what = {'structure': 'symbolic cell counts (0..6), date-stub and float-stub outcomes',
            'text': 'symbolic date / description / location / custom cell texts (<= 1-2 chars plus blanks) and header flag',
            'amount-wrap': 'symbolic amount-cell wrapper (parentheses, currency symbol, minus, padding), decimal separator, negate flag and the float value/sign',
            'amount-body': 'symbolic amount body (<= 3 chars over 1 9 , . blank), decimal separator, parenthesised or not'}
    for (layout, delim, nrows) in combos:
        for focus in ['structure', 'text', 'amount-wrap']:
            if focus != 'structure' and nrows == 2 and q:
                continue
            obs.append(Obligation(id=f'rows-{layout}-{delim}-{nrows}-{focus}', factory='rows_oracle', params={'layout': layout, 'delim': delim, 'nrows': nrows, 'focus': focus},
                                  reals=True, timeout=to, group='rows -> transactions (%s)' % focus,
                                  bounds=f'layout {LAYOUTS[layout][0]!r}, delimiter {delim!r}, {nrows} data row(s): {what[focus]}; other inputs fixed'))
    obs.append(Obligation(id='parse-amount-text', factory='parse_amount_text', params={'blen': 2 if q else 3}, reals=True, timeout=to, group='amount text normalisation',
                          bounds='amount cell = optional ( , optional $ , body <= %d chars over 1 9 , . blank, optional ) ; both decimal conventions; float() stubbed' % (2 if q else 3)))
    obs.append(Obligation(id='two-sources-same-format', factory='two_sources_same_format', reals=True, timeout=to, group='reads are independent',
                          bounds='two sources with identical format text; symbolic negate / header overrides, the second with delimiter ";"; float stub value symbolic'))
    for name in ROW_FILES:
        for delim in ([None, ';'] if q else [None, ';', 'tab']):
            obs.append(Obligation(id=f'real-reader-{name}-{delim}', factory='real_reader', params={'name': name, 'delim': delim}, engine='smt', twin=False, timeout=60,
                                  group='real csv files (direct runs)', bounds=f'file {name!r}, delimiter {delim!r}, with and without header'))
    obs.append(Obligation(id='two-reads', factory='two_reads_independent', reals=True, timeout=to, group='reads are independent',
                          bounds='the same amount text (<= 3 chars over 1 9 , .) read with "." then with ","; float stub returns two different symbolic values'))
    obs.append(Obligation(id='parse-amount-real-float', factory='parse_amount_real', engine='smt', twin=False, timeout=60, group='finite amounts',
                          bounds='16 amount texts through the real float(): nan/inf/overflow are rejected'))
    return obs
