"""C03 - rule expressions are confined: no code execution, I/O or introspection."""
import ast
import time
from engine.ob import REPO_SRC  # noqa: E402
from engine.ob import Obligation, post, reset_tally_caches, inject

LEVEL = 'other'
EXPLANATION = ('What the solver ranges over is what the evaluator does with any tree it is willing to evaluate: the real '
               '_eval_Name/_eval_Attribute/_eval_Call/get_function run under CrossHair on hand-built nodes whose identifier '
               'fields are SYMBOLIC strings, on every kind of receiver the language can build; the call must raise ExpressionError '
               'or return a plain data value.  Node-type closure: one representative snippet per ast expression class.  Immutability: '
               'identity snapshot of the parsed tree, transaction and rows before/after evaluation with symbolic leaves.  A finite '
               'sweep of every builtin name and every attribute of the receiver kinds (decided by exhaustion, reported separately) '
               'closes the gap left when a dictionary/getattr lookup makes CrossHair concretise the name.')
FUNCTIONS = ['expr_parser.validate_ast', 'expr_parser.parse_expression', 'TransactionEvaluator._eval_Name/_eval_Attribute/_eval_Call/_eval_Subscript',
             'TransactionContext.get_function', 'ExpressionEvaluator._eval_Name/_eval_Call', 'ExpressionContext.get_function']
BOUNDS = 'identifier names <= 10 (13 for function names) ASCII chars; receivers: str, int, float, bool, None, date, list, dict row, set; <= 2 arguments'
OUTSIDE = 'arbitrary source strings (a symbolic string cannot pass ast.parse): only the node classes x bounded trees are covered; audit-hook observation of I/O'
STUBS = ['ast.dump returns a constant inside error messages (the message is not the subject)']
TRUSTED = ['the list of expression node classes is taken from the running Python\'s ast module']
ASSUMPTIONS = []

NLEN = 10
LEAK_MARKS = ('<class', '<function', '<built-in', '<module', ' object at 0x', '<generator object', ' at 0x', '<bound method', '<method', '<slot wrapper', '<attribute')


def is_safe(v, depth=0):
    from datetime import date
    import types
    if depth > 6:
        return False
    if v is None or v is Ellipsis or isinstance(v, (bool, int, float, complex, bytes, date)):
        return True      # literal data (a constant written in the expression is data, not an interpreter internal)
    if isinstance(v, str):
        return not any(m in v for m in LEAK_MARKS)
    if isinstance(v, (list, tuple, set, frozenset)):
        return all(is_safe(x, depth + 1) for x in v)
    if isinstance(v, dict):
        return all(is_safe(k, depth + 1) and is_safe(x, depth + 1) for k, x in v.items())
    if isinstance(v, types.GeneratorType):
        return v.gi_code.co_filename.endswith('expr_parser.py')
    return False


def _ctx(rows=True):
    from datetime import date
    from tally.expr_parser import TransactionContext
    ds = {'orders': [{'amount': 5, 'item': 'x'}]} if rows else None
    return TransactionContext(description='aB{0.__class__}', amount=2.5, date=date(2024, 2, 3), variables={'v': 7},
                              field={'k': 'kv'}, source='Src', location='Loc', data_sources=ds)


RECEIVERS = {
    'str': 'aB', 'payload': '{0.__class__.__mro__} {0.__init__.__globals__}', 'int': 5, 'float': 2.5, 'bool': True, 'none': None,
    'list': [1, 'a'], 'dict': {'amount': 5, 'item': 'x'},
}


def _recv_node(kind):
    from datetime import date
    if kind == 'date':
        return ast.Name(id='date', ctx=ast.Load())
    if kind == 'list':
        return ast.Name(id='orders', ctx=ast.Load())
    if kind == 'dict':
        return ast.Subscript(value=ast.Name(id='orders', ctx=ast.Load()), slice=ast.Constant(value=0), ctx=ast.Load())
    return ast.Constant(value=RECEIVERS[kind])


def _run(node, evaluator_cls='txn'):
    """Evaluate with ast.dump stubbed; returns ('err',) or ('ok', value)."""
    from tally import expr_parser
    real_dump = expr_parser.ast.dump
    try:
        expr_parser.ast.dump = lambda *a, **k: '<node>'
        if evaluator_cls == 'txn':
            ev = expr_parser.TransactionEvaluator(_ctx())
        else:
            from datetime import datetime
            ev = expr_parser.ExpressionEvaluator(expr_parser.ExpressionContext(
                transactions=[{'amount': 5, 'date': datetime(2024, 1, 15), 'category': 'C', 'subcategory': 'S', 'merchant': 'M', 'tags': ['t']}],
                variables={'v': 7}))
        try:
            return ('ok', ev.evaluate(node))
        except expr_parser.ExpressionError:
            return ('err',)
    finally:
        expr_parser.ast.dump = real_dump


def method_call(kind, nargs):
    args_nodes = [ast.Constant(value=x) for x in ['a', 'b'][:nargs]]
    if nargs == 1 and kind == 'payload':
        args_nodes = [ast.Name(id='amount', ctx=ast.Load())]

    def ob(name: str) -> bool:
        """
        pre: len(name) <= NLEN
        post: _
        """
        node = ast.Call(func=ast.Attribute(value=_recv_node(kind), attr=name, ctx=ast.Load()), args=list(args_nodes), keywords=[])
        r = _run(node)
        return post(r[0] == 'err' or is_safe(r[1]))
    return ob


def attribute(kind):
    def ob(name: str) -> bool:
        """
        pre: len(name) <= NLEN
        post: _
        """
        if kind in ('txn', 'field'):
            value = ast.Name(id=kind, ctx=ast.Load())
        else:
            value = _recv_node(kind)
        node = ast.Attribute(value=value, attr=name, ctx=ast.Load())
        r = _run(node)
        return post(r[0] == 'err' or is_safe(r[1]))
    return ob


def name_lookup(which):
    def ob(name: str) -> bool:
        """
        pre: len(name) <= NLEN
        post: _
        """
        r = _run(ast.Name(id=name, ctx=ast.Load()), which)
        return post(r[0] == 'err' or is_safe(r[1]))
    return ob


def function_call(which, nargs):
    def ob(name: str) -> bool:
        """
        pre: len(name) <= 13
        post: _
        """
        args = [ast.Constant(value=x) for x in ['a', 1][:nargs]]
        r = _run(ast.Call(func=ast.Name(id=name, ctx=ast.Load()), args=args, keywords=[]), which)
        return post(r[0] == 'err' or is_safe(r[1]))
    return ob


ARG_KINDS = {
    'generator': '(r.item for r in orders)', 'rowgen': '(r for r in orders)', 'list': 'orders', 'row': 'orders[0]', 'date': 'date', 'listcomp': '[r.amount for r in orders]',
}


def function_call_arg(argkind, nargs):
    """Every function name (symbolic, <= 13 chars) applied to a NON-scalar first argument - a generator expression, a list of rows, a
    row, a date: an expression error, or plain data with no interpreter internals inside strings (no `<generator object ... at 0x...>`)."""
    def ob(name: str) -> bool:
        """
        pre: len(name) <= 13
        post: _
        """
        first = ast.parse(ARG_KINDS[argkind], mode='eval').body
        args = [first] + [ast.Constant(value=x) for x in ['a', 'b'][:nargs - 1]]
        r = _run(ast.Call(func=ast.Name(id=name, ctx=ast.Load()), args=args, keywords=[]), 'txn')
        if r[0] == 'ok' and hasattr(r[1], 'gi_code'):
            return post(is_safe(r[1]))
        return post(r[0] == 'err' or is_safe(r[1]))
    return ob


BINOP_TEXTS = ['%s', '%r', '%5s|', 'x%sx', 'x']


def binop_arg(argkind):
    """A text operand combined (%, +, *) with a non-scalar operand, on either side: an expression error or plain data - in particular
    no `<generator object ... at 0x...>` through printf-style formatting."""
    def ob(ti: int, op: int, swap: bool) -> bool:
        """
        pre: 0 <= ti < 5 and 0 <= op < 3
        post: _
        """
        from engine.ob import pick, flag
        ti, op = pick(ti, 5), pick(op, 3)
        other = ast.parse(ARG_KINDS[argkind], mode='eval').body
        text = ast.Constant(value=BINOP_TEXTS[ti])
        left, right = (other, text) if flag(swap) else (text, other)
        r = _run(ast.BinOp(left=left, op=[ast.Mod(), ast.Add(), ast.Mult()][op], right=right), 'txn')
        return post(r[0] == 'err' or is_safe(r[1]))
    return ob


def get_function(which):
    def ob(name: str) -> bool:
        """
        pre: len(name) <= 13
        post: _
        """
        from tally import expr_parser
        if which == 'txn':
            c = _ctx()
            f = c.get_function(name)
            if f is None or f is abs or f is round:
                return post(True)
            ok = getattr(f, '__self__', None) is c and f.__name__.startswith('_fn_') and f.__name__[4:] == name
            return post(ok)
        c = expr_parser.ExpressionContext()
        f = c.get_function(name)
        if f is None or f is abs or f is round:
            return post(True)
        return post(getattr(f, '__self__', None) is c and f.__name__.startswith('_fn_'))
    return ob


# ------------------------------------------------------------------------------------------ node-type closure
SNIPPETS = {
    'operators': 'a or (1 * 2 / 3 % 4 - 5 > 6) or (1 in orders) or (2 not in orders) or 1 >= 2 or 1 <= 2 or 1 == 2 or 1 != 2 or -amount > 0',
    'BoolOp': 'a and b', 'NamedExpr': '(x := 1)', 'BinOp': '1 + 2', 'UnaryOp': 'not a', 'Lambda': 'lambda: 0', 'IfExp': '1 if a else 2',
    'Dict': '{1: 2}', 'Set': '{1, 2}', 'ListComp': '[r for r in orders]', 'SetComp': '{r for r in orders}', 'DictComp': '{r: r for r in orders}',
    'GeneratorExp': 'sum(r.amount for r in orders)', 'Await': 'await x', 'Yield': '(yield)', 'YieldFrom': '(yield from x)', 'Compare': '1 < 2',
    'Call': 'abs(1)', 'FormattedValue': 'f"{amount}"', 'JoinedStr': 'f"a{description!r}"', 'Constant': '1', 'Attribute': 'txn.amount',
    'Subscript': 'orders[0]', 'Starred': 'abs(*orders)', 'Name': 'amount', 'List': '[1, 2]', 'Tuple': '(1, 2)', 'Slice': 'description[1:2]',
    'keyword': 'round(amount, ndigits=1)', 'BitOps': 'amount | 1', 'Pow': 'amount ** 2', 'FloorDiv': 'amount // 2', 'MatMult': 'amount @ 2',
    'Invert': '~amount', 'UAdd': '+amount', 'Is': 'amount is None', 'IsNot': 'amount is not None', 'LShift': '1 << 2', 'Ellipsis': '...',
    'bytes': "b'x'", 'complex': '1j', 'dunder-attr': 'description.__class__', 'dunder-call': 'description.__class__()', 'dunder-name': '__import__("os")',
    'builtin-eval': 'eval("1")', 'builtin-open': 'open("/etc/passwd")', 'getattr': 'getattr(description, "upper")', 'format': '"{0.__class__}".format(amount)',
    'mro': 'amount.__class__.__mro__', 'globals': 'abs.__globals__', 'subscript-dunder': 'orders[0]["__class__"]', 'walrus-escape': '(abs := 1)',
    'comprehension-target-tuple': '[a for (a, b) in orders]', 'nested-call': 'abs(abs)', 'type': 'type(amount)', 'vars': 'vars()',
}


def node_closure(key):
    src = SNIPPETS[key]

    def ob(amount: int, desc: str) -> bool:
        """
        pre: len(desc) <= 2
        post: _
        """
        from tally import expr_parser
        reset_tally_caches()
        try:
            expr_parser.parse_expression(src)
        except expr_parser.ExpressionError:
            return post(True)
        txn = {'description': desc, 'amount': amount, 'field': {'k': 'kv'}, 'source': 'S'}
        real_dump = expr_parser.ast.dump
        expr_parser.ast.dump = lambda *a, **k: '<node>'
        try:
            try:
                v = expr_parser.evaluate_transaction(src, txn, variables={'a': True, 'b': False}, data_sources={'orders': [{'amount': 5, 'item': 'x'}]})
            except expr_parser.ExpressionError:
                return post(True)
        finally:
            expr_parser.ast.dump = real_dump
        return post(is_safe(v))
    return ob


def node_classes_covered():
    """Every expression-node class of the running Python is either whitelisted-and-covered by a snippet or rejected by validate_ast."""
    class Q:
        def query(self):
            import sys
            sys.path.insert(0, REPO_SRC)
            from tally import expr_parser
            classes = [c for c in vars(ast).values() if isinstance(c, type) and issubclass(c, (ast.expr, ast.operator, ast.unaryop, ast.cmpop, ast.boolop, ast.expr_context, ast.comprehension, ast.keyword, ast.slice if hasattr(ast, 'slice') else ast.expr))]
            allowed = set(expr_parser.ALLOWED_NODES)
            seen = set()
            for src in SNIPPETS.values():
                try:
                    for n in ast.walk(ast.parse(src, mode='eval')):
                        seen.add(type(n))
                except SyntaxError:
                    pass
            missing = [c.__name__ for c in allowed if c not in seen and c not in (ast.Expression, ast.Index) and not issubclass(c, (ast.expr_context,))]
            # allowed node classes that no snippet exercises would be a hole in the closure argument
            if missing:
                return {'status': 'ERROR', 'message': 'whitelisted node classes without a snippet: %s' % missing, 'solver_queries': 0, 'solver_time_s': 0.0, 'paths': 0}
            return {'status': 'CONFIRMED', 'message': '%d whitelisted classes all exercised; %d classes known to ast' % (len(allowed), len(classes)),
                    'solver_queries': 0, 'solver_time_s': 0.0, 'paths': len(allowed)}

        def __call__(self, **kw):
            return True
    return Q()


# ------------------------------------------------------------------------------------------ immutability
IMMUT_SHAPES = ['date >= "2024-01-05" and month == 9001', '"2024-03-10" < date <= "2024-09-20"', 'txn.date == "2024-02-03"',
                'any(r.when == "2024-02-03" for r in orders)', 'contains("@P1") and amount > 9001', '(m := [r for r in orders if r.amount > 9001]) and m[0].item == "@P1"',
                'regex_replace(description, "a", "@P1") == "x"', 'sum(r.amount for r in orders) > 9001', 'field.k == "@P1"', 'next((r for r in orders), 0) == 0',
                'any(r.missing == "@P1" for r in orders) or amount > 9001', 'orders[0].nope == 9001 or orders[1].__class__ == 1', 'exists(orders[0].ghost) or contains("@P1")',
                'len(sum(([q for q in orders if q.amount == r.amount] for r in orders), orders)) >= 9001', 'len(sum(([q for q in orders] for r in orders if r.amount > 9001), orders)) == 2 or contains("@P1")',
                'sum((r.amount for r in orders), 9001) > 0 and len(orders) == 2',
                'len(sum(([q for q in orders if q.amount == r.amount] for r in orders if r.amount > 9001), extras)) >= 1 or contains("@P1")',
                'len(sum(([q for q in orders] for r in orders), extras)) == 5 and len(extras) == 1']


def immutability(i, kind='date'):
    """kind: what the caller's transaction looks like - a date, a datetime (time of day kept), no date, a date given as text,
    or a richer dict (tags list, location, nested field values); every item must be the very same object afterwards."""
    src = IMMUT_SHAPES[i]

    def ob(desc: str, amount: int, s1: str, n1: int) -> bool:
        """
        pre: len(desc) <= 2 and len(s1) <= 1
        post: _
        """
        from datetime import date
        from tally import expr_parser
        reset_tally_caches()
        tree = inject(src, {'@P1': s1, 9001: n1})
        snap = [(n, type(n), [(f, getattr(n, f, None)) for f in n._fields]) for n in ast.walk(tree)]
        field = {'k': 'kv'}
        rows = {'orders': [{'amount': 5, 'item': 'x', 'when': date(2024, 2, 3)}, {'amount': 9, 'item': 'y', 'when': '2024-02-03'}],
                'extras': [{'amount': 1, 'item': 'z', 'when': None}]}
        txn = {'description': desc, 'amount': amount, 'field': field, 'source': 'S', 'date': date(2024, 2, 3)}
        if kind == 'datetime':
            from datetime import datetime
            txn['date'] = datetime(2024, 2, 3, 17, 45, 12)
        elif kind == 'nodate':
            txn['date'] = None
        elif kind == 'textdate':
            txn['date'] = '2024-02-03'
        elif kind == 'rich':
            txn.update({'tags': ['Keep', 'order'], 'location': 'WA', 'raw_description': desc, 'extra_fields': {'a': [1, 2]}, 'merchant': 'M'})
        tags0 = list(txn['tags']) if 'tags' in txn else None
        txn_items = list(txn.items())
        row_items = [list(r.items()) for r in rows['orders']]
        extras_rows = list(rows['extras'])
        extras_items = [list(r.items()) for r in extras_rows]
        for _ in range(2):
            try:
                expr_parser.evaluate_transaction(src, txn, data_sources=rows)
            except expr_parser.ExpressionError:
                pass
        ok = expr_parser.parse_expression(src) is tree
        after = list(ast.walk(tree))
        ok = ok and len(after) == len(snap)
        for (n, t, fields), n2 in zip(snap, after):
            ok = ok and n is n2 and type(n2) is t
            for f, v in fields:
                v2 = getattr(n2, f, None)
                if isinstance(v, list):
                    ok = ok and isinstance(v2, list) and len(v) == len(v2) and all(a is b for a, b in zip(v, v2))
                else:
                    ok = ok and v2 is v
        ok = ok and len(txn) == len(txn_items) and all(txn[k] is v for k, v in txn_items) and field == {'k': 'kv'}
        ok = ok and (tags0 is None or (txn['tags'] == tags0 and txn['extra_fields'] == {'a': [1, 2]}))
        ok = ok and len(rows['orders']) == 2 and all(len(r) == len(it) and all(r[k] is v for k, v in it) for r, it in zip(rows['orders'], row_items))
        ok = ok and len(rows) == 2 and len(rows['extras']) == 1 and rows['extras'][0] is extras_rows[0] and all(extras_rows[0][k] is v for k, v in extras_items[0])
        return post(ok)
    return ob


# ------------------------------------------------------------------------------------------ finite sweep (exhaustion, not the solver)
def sweep():
    class Q:
        def query(self):
            import builtins
            import sys
            from datetime import date
            sys.path.insert(0, REPO_SRC)
            t0 = time.time()
            names = set(dir(builtins)) | {'__builtins__', '__import__', 'os', 'sys', 'self', 'ctx', 'ast', 're', 'expr_parser'}
            attr_names = set()
            for obj in ('x', 1, 1.5, True, None, [], {}, set(), date(2024, 1, 1), abs, type, (i for i in [])):
                attr_names |= set(dir(obj))
            attr_names |= {n.upper() for n in list(attr_names)[:50]}
            n = 0
            bad = None
            for nm in sorted(names):
                for which in ('txn', 'agg'):
                    for r in (_run(ast.Name(id=nm, ctx=ast.Load()), which),
                              _run(ast.Call(func=ast.Name(id=nm, ctx=ast.Load()), args=[], keywords=[]), which),
                              _run(ast.Call(func=ast.Name(id=nm, ctx=ast.Load()), args=[ast.Constant(value='1')], keywords=[]), which),
                              _run(ast.Call(func=ast.Name(id=nm, ctx=ast.Load()), args=[ast.Constant(value='/etc/hostname'), ast.Constant(value='r')], keywords=[]), which)):
                        n += 1
                        if r[0] == 'ok' and not is_safe(r[1]) and bad is None:
                            bad = {'kind': 'name', 'name': nm, 'which': which}
            kinds = ['str', 'payload', 'int', 'float', 'bool', 'none', 'list', 'dict', 'date']
            for an in sorted(attr_names):
                for kind in kinds + ['txn', 'field']:
                    value = ast.Name(id=kind, ctx=ast.Load()) if kind in ('txn', 'field') else _recv_node(kind)
                    rs = [_run(ast.Attribute(value=value, attr=an, ctx=ast.Load()))]
                    for args in ([], [ast.Name(id='amount', ctx=ast.Load())], [ast.Constant(value='a'), ast.Constant(value='b')]):
                        rs.append(_run(ast.Call(func=ast.Attribute(value=value, attr=an, ctx=ast.Load()), args=list(args), keywords=[])))
                    for r in rs:
                        n += 1
                        if r[0] == 'ok' and not is_safe(r[1]) and bad is None:
                            bad = {'kind': 'attr', 'name': an, 'recv': kind}
            res = {'solver_queries': 0, 'solver_time_s': 0.0, 'paths': n, 'extra': {'decided_by': 'exhaustive finite sweep (not the solver)', 'cases': n, 'wall_s': round(time.time() - t0, 1)}}
            if bad:
                res.update({'status': 'REFUTED', 'args': {'case': bad}, 'message': 'unsafe value for %r' % (bad,)})
            else:
                res.update({'status': 'CONFIRMED', 'message': f'{n} concrete resolutions: all raise ExpressionError or return plain data'})
            return res

        def __call__(self, case):
            import sys
            sys.path.insert(0, REPO_SRC)
            if case['kind'] == 'name':
                nm = case['name']
                rs = [_run(ast.Name(id=nm, ctx=ast.Load()), case['which']),
                      _run(ast.Call(func=ast.Name(id=nm, ctx=ast.Load()), args=[], keywords=[]), case['which']),
                      _run(ast.Call(func=ast.Name(id=nm, ctx=ast.Load()), args=[ast.Constant(value='1')], keywords=[]), case['which']),
                      _run(ast.Call(func=ast.Name(id=nm, ctx=ast.Load()), args=[ast.Constant(value='/etc/hostname'), ast.Constant(value='r')], keywords=[]), case['which'])]
            else:
                kind, an = case['recv'], case['name']
                value = ast.Name(id=kind, ctx=ast.Load()) if kind in ('txn', 'field') else _recv_node(kind)
                rs = [_run(ast.Attribute(value=value, attr=an, ctx=ast.Load()))]
                for args in ([], [ast.Name(id='amount', ctx=ast.Load())], [ast.Constant(value='a'), ast.Constant(value='b')]):
                    rs.append(_run(ast.Call(func=ast.Attribute(value=value, attr=an, ctx=ast.Load()), args=list(args), keywords=[])))
            return all(r[0] == 'err' or is_safe(r[1]) for r in rs)
    return Q()


def obligations(tier, seed):
    q = tier == 'quick'
    obs = []
    to = 90 if q else 600
    for kind in ['str', 'payload', 'int', 'float', 'none', 'list', 'dict', 'date']:
        for nargs in ([0, 1] if q else [0, 1, 2]):
            obs.append(Obligation(id=f'method-{kind}-{nargs}', factory='method_call', params={'kind': kind, 'nargs': nargs}, timeout=to,
                                  group='method resolution', bounds=f'<{kind} receiver>.<symbolic name <= 10 chars>({nargs} args)'))
    for kind in ['txn', 'field', 'str', 'int', 'dict', 'list', 'date', 'none']:
        obs.append(Obligation(id=f'attr-{kind}', factory='attribute', params={'kind': kind}, timeout=to, group='attribute resolution',
                              bounds=f'<{kind}>.<symbolic name <= 10 chars>'))
    for which in ['txn', 'agg']:
        obs.append(Obligation(id=f'name-{which}', factory='name_lookup', params={'which': which}, timeout=to, group='name resolution',
                              bounds='bare symbolic name <= 10 chars in the %s evaluator' % which))
        obs.append(Obligation(id=f'getfn-{which}', factory='get_function', params={'which': which}, timeout=to, group='function table',
                              bounds='get_function(<symbolic name <= 13 chars>)'))
        for nargs in [0, 1, 2]:
            obs.append(Obligation(id=f'call-{which}-{nargs}', factory='function_call', params={'which': which, 'nargs': nargs}, timeout=to,
                                  group='function resolution', bounds=f'<symbolic name <= 13 chars>({nargs} args) in the {which} evaluator'))
    for key in SNIPPETS:
        obs.append(Obligation(id=f'node-{key}', factory='node_closure', params={'key': key}, timeout=60, group='node-type closure',
                              bounds=f'snippet {SNIPPETS[key]!r}; amount int, description <= 2 chars symbolic'))
    obs.append(Obligation(id='node-classes-covered', factory='node_classes_covered', engine='smt', twin=False, timeout=60, group='node-type closure',
                          bounds='every class in ALLOWED_NODES is exercised by a snippet (guards the closure argument against a widened whitelist)'))
    for ak in ARG_KINDS:
        for na in (1, 2, 3):
            obs.append(Obligation(id=f'call-arg-{ak}-{na}', factory='function_call_arg', params={'argkind': ak, 'nargs': na}, timeout=to, group='function calls on non-scalar arguments',
                                  bounds=f'symbolic function name <= 13 ASCII chars applied to {ARG_KINDS[ak]!r}' + (' and %d text argument(s)' % (na - 1) if na > 1 else '')))
    for ak in ARG_KINDS:
        obs.append(Obligation(id=f'binop-arg-{ak}', factory='binop_arg', params={'argkind': ak}, timeout=to, group='function calls on non-scalar arguments',
                              bounds=f'one of the texts {BINOP_TEXTS!r} combined by %, + or * with {ARG_KINDS[ak]!r}, either operand order (symbolic indices)'))
    for i in range(len(IMMUT_SHAPES)):
        obs.append(Obligation(id=f'immut-{i}', factory='immutability', params={'i': i}, timeout=to, group='evaluation leaves tree, transaction and rows unchanged',
                              bounds=f'{IMMUT_SHAPES[i]!r} evaluated twice; identity snapshot of every AST node field, transaction item and row item'))
    for i in (0, 2, 4, 8):
        for kind in ('datetime', 'nodate', 'rich'):
            obs.append(Obligation(id=f'immut-{i}-{kind}', factory='immutability', params={'i': i, 'kind': kind}, timeout=to, group='evaluation leaves tree, transaction and rows unchanged',
                                  bounds=f'{IMMUT_SHAPES[i]!r} evaluated twice on a transaction whose date is {kind} (rich: with tags, location, extra fields); identity snapshot as above'))
    obs.append(Obligation(id='finite-sweep', factory='sweep', engine='smt', twin=False, timeout=300, group='finite resolvable-name sweep (exhaustion)',
                          bounds='every name in dir(builtins) as variable and function; every attribute of str/int/float/bool/None/list/dict/set/date/function/type/generator as attribute and method on 11 receivers'))
    return obs
