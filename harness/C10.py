"""C10 - a merchant appears in a view exactly when the view's filter is true of it."""
from engine.ob import REPO_SRC  # noqa: E402
from engine.ob import Obligation, post, reset_tally_caches, inject, inject_tree

LEVEL = 'other'
EXPLANATION = ('Bounded symbolic execution (CrossHair + z3) of the real analyze_transactions -> classify_by_sections -> '
               'compute_section_totals pipeline (section_engine.classify_merchants, ExpressionContext, ExpressionEvaluator underneath) on '
               '1-2 merchants with 2-3 payments of SYMBOLIC exact-real amounts in a fixed month layout, with views whose thresholds and '
               'strings are symbolic (injected into the parsed filter trees).  Membership must equal an oracle written from the '
               'documented meaning of each primitive; classifying with one view removed or the views rotated must not change the others; '
               'each view total is the sum of its members.  cv: concrete payment histories, symbolic threshold.')
FUNCTIONS = ['analyzer.classify_by_sections', 'analyzer.compute_section_totals', 'section_engine.classify_merchants', 'evaluate_section_filter',
             'evaluate_variables', 'expr_parser.ExpressionContext.*', 'expr_parser.ExpressionEvaluator.*', 'analyzer.analyze_transactions']
BOUNDS = '2 merchants (one may be tagged income/transfer/investment), 2-3 payments each, months fixed per layout, amounts exact reals in (-1e6, 1e6); 4 view files of 3-5 views'
OUTSIDE = 'cv / stddev with symbolic amounts (square root): concrete histories only; by("week") beyond the known finding; float rounding'
STUBS = ['format(<symbolic number>, spec) returns "<num>"', 'x ** 0.5 of a symbolic number returns a fresh non-negative real (cv of analyze_transactions is not asserted on)']
TRUSTED = []
ASSUMPTIONS = ['amounts are exact reals']

# layout: merchant -> [(month, day)] ; amounts are symbolic in this order
LAYOUTS = {
    'L1': {'M1': [(3, 2), (3, 20), (5, 7)], 'M2': [(4, 9)]},
    'L2': {'M1': [(1, 5), (2, 5)], 'M2': [(1, 6), (1, 7)]},
    'L3': {'M1': [(2, 3), (2, 9)], 'M2': [(2, 4), (3, 4)]},      # with m2tags 'mixed': only M2's first payment is tagged transfer
    'L4': {'M1': [(1, 5, 2024), (1, 5, 2025)], 'M2': [(2, 5, 2025), (2, 5, 2024)]},      # the same month and day in two different years
}

VIEWS = {
    'totals-a': '''
limit = 9001

[Large]
filter: total > limit

[LocalLimit]
limit = 9002
filter: total > limit

[OverGlobal]
filter: total > limit
''',
    'totals-b': '''
[Broken]
filter: total > "x"

[Frequent]
filter: months >= 9003

[Large]
filter: total > 9001
''',
    'payments-a': '''
peak = max(sum(by("month")))
npay = count(payments)

[PeakVar]
filter: peak > 9001

[Peak]
filter: max(sum(by("month"))) > 9001

[AvgCount]
filter: avg(payments) >= 9002 and count(payments) == 9003
''',
    'payments-b': '''
[Yearly]
filter: sum(sum(by("year"))) == total and min(payments) > 9002

[Period]
filter: months >= period("month") - 9003
''',
    'chain': '''
[Band]
filter: 9001 < total <= 9002

[MonthBand]
filter: 1 <= months <= 9003

[Plain]
filter: total > 9001
''',
    'text': '''
[Cat]
filter: category == "@P1" and "@P2" in tags

[Sub]
filter: subcategory != "@P1" or max_val(total, 9001) == total

[NotTagged]
filter: "@P2" not in tags and min_val(total, 9001) == 9001
''',
}


def _txns(layout, amounts, m2tags):
    from datetime import datetime
    out = []
    k = 0
    for m, dates in LAYOUTS[layout].items():
        for dt in dates:
            mo, d, yr = dt[0], dt[1], (dt[2] if len(dt) > 2 else 2024)
            out.append({'merchant': m, 'category': 'Food' if m == 'M1' else 'Bills', 'subcategory': 'Grocery' if m == 'M1' else 'Power',
                        'date': datetime(yr, mo, d), 'amount': amounts[k],
                        'tags': ['recurring'] if m == 'M1' else ((['transfer'] if dt == dates[0] else []) if list(m2tags) == ['mixed'] else list(m2tags)),
                        'description': m, 'source': 'S'})
            k += 1
    return out


def _facts(layout, amounts, m2tags):
    """Independent per-merchant facts: payments, total, distinct months, monthly sums."""
    facts = {}
    k = 0
    for m, dates in LAYOUTS[layout].items():
        pays, by_month = [], {}
        for dt in dates:
            mo = (dt[2] if len(dt) > 2 else 2024, dt[0])          # a month is a month of a year
            a = amounts[k]
            k += 1
            pays.append(a)
            by_month[mo] = by_month.get(mo, 0) + a
        tags = ['recurring'] if m == 'M1' else (['transfer'] if list(m2tags) == ['mixed'] else list(m2tags))      # merchant tags = union over its payments
        facts[m] = {'payments': pays, 'total': sum(pays), 'months': len(by_month), 'by_month': by_month,
                    'category': 'Food' if m == 'M1' else 'Bills', 'subcategory': 'Grocery' if m == 'M1' else 'Power', 'tags': [t.lower() for t in tags]}
    all_months = set()
    for m, dates in LAYOUTS[layout].items():
        f = facts[m]
        if not any(t in ('income', 'transfer', 'investment') for t in f['tags']):
            all_months |= set(f['by_month'])
    return facts, len(all_months)


def _expected(vname, f, period_months, s1, s2, n1, n2, n3):
    """Membership per view of VIEWS[vname], from the documented meaning of the primitives."""
    tot, pays = f['total'], f['payments']
    if vname == 'totals-a':
        return {'Large': tot > n1, 'LocalLimit': tot > n2, 'OverGlobal': tot > n1}
    if vname == 'totals-b':
        return {'Broken': False, 'Frequent': f['months'] >= n3, 'Large': tot > n1}
    if vname == 'payments-a':
        peak = max(f['by_month'].values())
        return {'PeakVar': peak > n1, 'Peak': peak > n1, 'AvgCount': (sum(pays) / len(pays) >= n2) and len(pays) == n3}
    if vname == 'payments-b':
        return {'Yearly': min(pays) > n2, 'Period': f['months'] >= period_months - n3}
    if vname == 'chain':
        return {'Band': n1 < tot <= n2, 'MonthBand': 1 <= f['months'] <= n3, 'Plain': tot > n1}
    if vname == 'text':
        return {'Cat': f['category'].lower() == s1.lower() and s2.lower() in f['tags'],
                'Sub': f['subcategory'].lower() != s1.lower() or (tot >= n1),
                'NotTagged': (s2.lower() not in f['tags']) and (tot >= n1)}
    raise KeyError(vname)


def membership(vname, layout, m2tags):
    text = VIEWS[vname]
    m2tags = list(m2tags)

    def core(a1, a2, a3, a4, s1, s2, n1, n2, n3):
        from tally import section_engine
        from tally.analyzer import analyze_transactions, classify_by_sections, compute_section_totals
        reset_tally_caches()
        amounts = [a1, a2, a3, a4]
        stats = analyze_transactions(_txns(layout, amounts, m2tags))
        cfg = section_engine.parse_sections(text)
        values = {'@P1': s1, '@P2': s2, 9001: n1, 9002: n2, 9003: n3}
        for sec in cfg.sections:
            inject_tree(sec.filter_ast, values)
            for e in sec.variables.values():
                inject(e, values)
        for e in cfg.global_variables.values():
            inject(e, values)
        res = classify_by_sections(stats['by_merchant'], cfg, stats['num_months'])
        facts, period_months = _facts(layout, amounts, m2tags)
        ok = list(res.keys()) == [s.name for s in cfg.sections]
        for m, f in facts.items():
            excluded = any(t in ('income', 'transfer', 'investment') for t in f['tags'])
            exp = _expected(vname, f, period_months, s1, s2, n1, n2, n3)
            for view, members in res.items():
                names = [name for name, _ in members]
                ok = ok and names.count(m) == (1 if (exp[view] and not excluded) else 0)
        # each view's total is the sum of its members' totals
        for view, members in res.items():
            tot = compute_section_totals(members)
            ok = ok and tot['total'] == sum(facts[name]['total'] for name, _ in members) and tot['count'] == len(members)
        # independence: removing a view or rotating the list never changes the membership of the others
        full = {v: [n for n, _ in ms] for v, ms in res.items()}
        secs = list(cfg.sections)
        for drop in ([1] if len(secs) > 1 else [0]):
            sub = section_engine.SectionConfig(global_variables=cfg.global_variables, sections=secs[:drop] + secs[drop + 1:])
            r2 = classify_by_sections(stats['by_merchant'], sub, stats['num_months'])
            for v, ms in r2.items():
                ok = ok and [n for n, _ in ms] == full[v]
        rot = section_engine.SectionConfig(global_variables=cfg.global_variables, sections=secs[1:] + secs[:1])
        r3 = classify_by_sections(stats['by_merchant'], rot, stats['num_months'])
        for v, ms in r3.items():
            ok = ok and [n for n, _ in ms] == full[v]
        return post(ok)

    def ob_amounts(a1: float, a2: float, n1: int, n2: int, n3: int) -> bool:
        """
        pre: -1000000.0 < a1 < 1000000.0 and -1000000.0 < a2 < 1000000.0
        post: _
        """
        return core(a1, a2, 25.0, 40.0, 'Food', 'recurring', n1, n2, n3)

    def ob_text(s1: str, s2: str, n1: int) -> bool:
        """
        pre: len(s1) <= 2 and len(s2) <= 2
        post: _
        """
        return core(30.0, 12.5, 25.0, 40.0, s1, s2, n1, 0, 0)
    return ob_text if vname == 'text' else ob_amounts


HISTORIES = {
    'two-months': [(1, 100.0), (2, 200.0)],
    'four-months': [(1, 60.0), (2, 100.0), (3, 140.0), (4, 100.0)],
    'same-month': [(1, 50.0), (1, 70.0)],
    'with-refund': [(1, 120.0), (2, -20.0), (3, 80.0)],
    'equal': [(5, 40.0), (6, 40.0), (7, 40.0)],
}


def cv_threshold(hist):
    """cv = population coefficient of variation of the monthly totals (concrete history, symbolic threshold)."""
    pays = HISTORIES[hist]

    def ob(t: float) -> bool:
        """
        pre: -10.0 < t < 10.0
        post: _
        """
        from datetime import datetime
        from tally import section_engine
        from tally.analyzer import analyze_transactions, classify_by_sections
        reset_tally_caches()
        txns = [{'merchant': 'M', 'category': 'C', 'subcategory': 'S', 'date': datetime(2024, mo, 3), 'amount': a, 'tags': [], 'description': 'M', 'source': 'S'} for mo, a in pays]
        stats = analyze_transactions(txns)
        cfg = section_engine.parse_sections('[Steady]\nfilter: cv < 9001\n\n[Lumpy]\nfilter: cv >= 9001\n')
        for sec in cfg.sections:
            inject_tree(sec.filter_ast, {9001: t})
        res = classify_by_sections(stats['by_merchant'], cfg, stats['num_months'])
        monthly = {}
        for mo, a in pays:
            monthly[mo] = monthly.get(mo, 0.0) + a
        vals = list(monthly.values())
        if len(vals) < 2:
            cv = 0.0
        else:
            mean = sum(vals) / len(vals)
            cv = 0.0 if mean == 0 else (sum((x - mean) ** 2 for x in vals) / len(vals)) ** 0.5 / mean
        steady = [n for n, _ in res['Steady']]
        lumpy = [n for n, _ in res['Lumpy']]
        return post((steady == ['M']) == (cv < t) and (lumpy == ['M']) == (cv >= t))
    return ob


def day_grouping():
    """by("day") / by("week") must reflect the real payment days."""
    class Q:
        def query(self):
            ok = self()
            r = {'solver_queries': 0, 'solver_time_s': 0.0, 'paths': 1}
            r.update({'status': 'CONFIRMED', 'message': 'day/week groupings follow the payment days'} if ok else
                     {'status': 'REFUTED', 'args': {}, 'message': 'payments on 2024-03-01 and 2024-03-20: by("day") sees one day, by("week") one week'})
            return r

        def __call__(self, **kw):
            import sys
            from datetime import datetime
            sys.path.insert(0, REPO_SRC)
            from tally.analyzer import analyze_transactions, classify_by_sections
            from tally.section_engine import parse_sections
            reset_tally_caches()
            tx = [{'merchant': 'M', 'category': 'C', 'subcategory': 'S', 'date': datetime(2024, 3, d), 'amount': a, 'tags': [], 'description': 'M', 'source': 'S'}
                  for d, a in ((1, 10.0), (20, 20.0))]
            st = analyze_transactions(tx)
            cfg = parse_sections('[TwoOnOneDay]\nfilter: max(count(by("day"))) >= 2\n\n[TwoWeeks]\nfilter: count(sum(by("week"))) >= 2\n')
            r = classify_by_sections(st['by_merchant'], cfg, st['num_months'])
            return [n for n, _ in r['TwoOnOneDay']] == [] and [n for n, _ in r['TwoWeeks']] == ['M']
    return Q()


DAY_TABLE = [(2024, 2, 15), (2024, 2, 29), (2024, 3, 1), (2024, 2, 26), (2024, 12, 31), (2025, 1, 1), (2024, 3, 31), (2023, 2, 28), (2024, 1, 2), (2024, 12, 30)]


def day_pairs():
    """Two payments of one merchant on days picked (symbolic indices) from a table with a leap day, month ends, a year end and
    the same day twice: by("day") puts them in one group exactly when the days are equal, by("week") (within one year) exactly when
    they share the Monday-based week; by("month") / by("year") likewise."""
    def ob(i: int, j: int) -> bool:
        """
        pre: 0 <= i < 10 and 0 <= j < 10
        post: _
        """
        from datetime import datetime, timedelta
        from engine.ob import pick
        from tally.analyzer import analyze_transactions, classify_by_sections
        from tally.section_engine import parse_sections
        i, j = pick(i, 10), pick(j, 10)
        reset_tally_caches()
        d1, d2 = datetime(*DAY_TABLE[i]), datetime(*DAY_TABLE[j])
        tx = [{'merchant': 'M', 'category': 'C', 'subcategory': 'S', 'date': d, 'amount': a, 'tags': [], 'description': 'M', 'source': 'S'}
              for d, a in ((d1, 10.0), (d2, 20.0))]
        st = analyze_transactions(tx)
        cfg = parse_sections('[SameDay]\nfilter: max(count(by("day"))) >= 2\n\n[SameWeek]\nfilter: max(count(by("week"))) >= 2\n\n'
                             '[SameMonth]\nfilter: max(count(by("month"))) >= 2\n\n[SameYear]\nfilter: max(count(by("year"))) >= 2\n\n[DaySum]\nfilter: max(sum(by("day"))) > 25\n')
        r = classify_by_sections(st['by_merchant'], cfg, st['num_months'])
        got = {name: [n for n, _ in members] == ['M'] for name, members in r.items()}
        ok = got['SameDay'] == (d1 == d2) and got['DaySum'] == (d1 == d2)
        ok = ok and got['SameMonth'] == ((d1.year, d1.month) == (d2.year, d2.month)) and got['SameYear'] == (d1.year == d2.year)
        if d1.year == d2.year:
            monday = lambda d: d - timedelta(days=d.weekday())
            ok = ok and got['SameWeek'] == (monday(d1) == monday(d2) or (monday(d1).year < d1.year and monday(d2).year < d2.year))
        return post(ok)
    return ob


def obligations(tier, seed):
    q = tier == 'quick'
    obs = []
    to = 270 if q else 1200
    combos = [('totals-a', 'L1', ['utilities']), ('totals-b', 'L2', ['Income']), ('totals-b', 'L1', []), ('payments-a', 'L1', ['utilities']), ('payments-a', 'L2', []),
              ('totals-a', 'L3', ['mixed']), ('payments-a', 'L3', ['mixed']), ('payments-b', 'L1', ['x']), ('payments-b', 'L2', ['investment']), ('text', 'L1', ['Transfer', 'x']), ('text', 'L2', ['recurring']),
              ('chain', 'L1', ['utilities']), ('totals-b', 'L4', ['x']), ('payments-a', 'L4', [])]
    if not q:
        combos += [(v, l, t) for v in VIEWS for l in LAYOUTS for t in (['investment'], ['Recurring', 'misc'])]
    combos = [c for i, c in enumerate(combos) if c not in combos[:i]]
    for (v, l, t) in combos:
        obs.append(Obligation(id=f'member-{v}-{l}-' + ('_'.join(t) or 'none'), factory='membership', params={'vname': v, 'layout': l, 'm2tags': t},
                              reals=True, opaque=True, sqrt_free=True, timeout=to, group='membership iff filter; independence; totals',
                              bounds=f'views {v}, month layout {l} {LAYOUTS[l]}, M2 tagged {t}; ' + ('symbolic strings (<= 2 chars) and threshold, concrete amounts' if v == 'text' else 'two symbolic real amounts (first merchant), two concrete, symbolic integer thresholds')))
    for h in HISTORIES:
        obs.append(Obligation(id=f'cv-{h}', factory='cv_threshold', params={'hist': h}, reals=True, opaque=True, timeout=to, group='cv (population coefficient of variation)',
                              bounds=f'concrete history {HISTORIES[h]}; symbolic real threshold'))
    obs.append(Obligation(id='day-pairs', factory='day_pairs', timeout=to, group='by("day") / by("week")',
                          bounds=f'two payments on days picked by symbolic indices from {DAY_TABLE} (leap day, month / year ends); five grouping filters'))
    obs.append(Obligation(id='day-week-grouping', factory='day_grouping', engine='smt', twin=False, timeout=60,
                          group='by("day") / by("week")', bounds='two payments on different days of one month'))
    return obs
