"""C01 - first matching categorizing rule decides merchant/category/subcategory."""
from engine.ob import Obligation, post, reset_tally_caches, inject
from harness import sel

LEVEL = 'other'
EXPLANATION = ('Bounded symbolic execution (CrossHair + z3) of the real MerchantEngine.match / '
               'normalize_merchant against an independent first-match oracle; see DESIGN.md C01.')
FUNCTIONS = ['tally.merchant_engine.MerchantEngine.match', 'MerchantEngine._evaluate_variables',
             'MerchantEngine._evaluate_let_bindings', 'tally.merchant_utils.normalize_merchant',
             'tally.merchant_utils.apply_transforms', 'tally.merchant_utils.extract_merchant_name',
             'tally.modifier_parser.check_all_conditions', 'tally.expr_parser.TransactionEvaluator']
BOUNDS = 'N <= 3 rules (quick) / 4 (thorough); description <= 3-4 ASCII chars; constants <= 2 chars'
OUTSIDE = 'tally up JSON/HTML observation points; non-ASCII text; more rules than N'
STUBS = []
TRUSTED = ['ast.parse maps a literal to an ast.Constant holding it (AST-constant injection)']
ASSUMPTIONS = ['symbolic text is 7-bit ASCII']


# ----------------------------------------------------------------------------- 1. selection core
def sel_first(n, cats=None, subs=None):
    """Truth-vector obligation.  cats/subs None => symbolic flags."""
    def ob(b0: bool, b1: bool, b2: bool, b3: bool, b4: bool,
           c0: bool, c1: bool, c2: bool, c3: bool, c4: bool,
           s0: bool, s1: bool, s2: bool, s3: bool, s4: bool) -> bool:
        """
        post: _
        """
        reset_tally_caches()
        bs = [b0, b1, b2, b3, b4][:n]
        cs = list(cats) if cats is not None else [bool(x) for x in [c0, c1, c2, c3, c4][:n]]
        ss = list(subs) if subs is not None else [bool(x) for x in [s0, s1, s2, s3, s4][:n]]
        rules = sel.build_rules(n, cs, ss)
        sel.inject_truth(rules, bs)
        eng = sel.engine_for(rules, 'first_match')
        res = eng.match(dict(sel.TXN))
        bsc = [bool(b) for b in bs]
        exp = sel.first_match_oracle(rules, bsc)
        ok = (res.matched == exp[0] and res.merchant == exp[1] and res.category == exp[2]
              and res.subcategory == exp[3] and res.matched_rule is exp[4])
        # rules that do not match have no influence; rules after the winner cannot change it
        kept = []
        for r, b in zip(rules, bsc):
            if b:
                kept.append(r)
                if r is exp[4]:
                    break
        sel.inject_truth(kept, [True] * len(kept))
        res2 = sel.engine_for(kept, 'first_match').match(dict(sel.TXN))
        ok2 = (res2.merchant, res2.category, res2.subcategory) == (res.merchant, res.category, res.subcategory)
        return post(ok and ok2)
    return ob


def obligations(tier, seed):
    obs = []
    ns = [1, 2, 3] if tier == 'quick' else [1, 2, 3]
    for n in ns:
        obs.append(Obligation(id=f'sel-first-n{n}', factory='sel_first', params={'n': n}, timeout=90,
                              group='selection core', bounds=f'{n} rules; truth vector, has-category and has-subcategory flags symbolic'))
    if tier == 'thorough':
        import itertools
        for cats in itertools.product([False, True], repeat=4):
            obs.append(Obligation(id='sel-first-n4-c' + ''.join('1' if c else '0' for c in cats), factory='sel_first',
                                  params={'n': 4, 'cats': list(cats)}, timeout=120, group='selection core',
                                  bounds='4 rules; has-category pattern fixed, truth vector and has-subcategory symbolic'))
    return obs
