"""C01 - first matching categorizing rule decides merchant/category/subcategory."""
from engine.ob import use_engine
from engine.ob import Obligation, post, reset_tally_caches, inject
from harness import sel

LEVEL = 'other'
EXPLANATION = ('Bounded symbolic execution (CrossHair + z3) of the real MerchantEngine.match / '
               'normalize_merchant against an independent first-match oracle; see DESIGN.md C01.')
FUNCTIONS = ['tally.merchant_engine.MerchantEngine.match', 'MerchantEngine._evaluate_variables',
             'MerchantEngine._evaluate_let_bindings', 'tally.merchant_utils.normalize_merchant',
             'tally.merchant_utils.apply_transforms', 'tally.merchant_utils.extract_merchant_name',
             'tally.modifier_parser.check_all_conditions', 'tally.expr_parser.TransactionEvaluator']
BOUNDS = 'N <= 3 rules (quick) / 4 (thorough); description <= 3-4 ASCII chars; constants <= 2 chars'
OUTSIDE = 'tally up JSON/HTML observation points; non-ASCII text; more rules than N'
STUBS = ['norm-*: extract_merchant_name returns a constant (the fallback name is checked by unknown-*)', 'legacy-mod-*: tally.merchant_utils.re.search(<rule pattern>) returns a symbolic truth value; the CSV file is real (written to a temp dir before the analysis)']
TRUSTED = ['ast.parse maps a literal to an ast.Constant holding it (AST-constant injection)']
ASSUMPTIONS = ['symbolic text is 7-bit ASCII']
WALL_BUDGET = {'quick': 600, 'thorough': 2400}      # thorough: ~270 obligations, most of them short


# ----------------------------------------------------------------------------- 1. selection core
def sel_first(n, cats=None, subs=None):
    """Truth-vector obligation.  cats/subs None => symbolic flags."""
    def ob(b0: bool, b1: bool, b2: bool, b3: bool, b4: bool,
           c0: bool, c1: bool, c2: bool, c3: bool, c4: bool,
           s0: bool, s1: bool, s2: bool, s3: bool, s4: bool) -> bool:
        """
        post: _
        """
        reset_tally_caches()
        bs = [b0, b1, b2, b3, b4][:n]
        cs = list(cats) if cats is not None else [bool(x) for x in [c0, c1, c2, c3, c4][:n]]
        ss = list(subs) if subs is not None else [bool(x) for x in [s0, s1, s2, s3, s4][:n]]
        rules = sel.build_rules(n, cs, ss)
        sel.inject_truth(rules, bs)
        eng = sel.engine_for(rules, 'first_match')
        res = eng.match(dict(sel.TXN))
        bsc = [bool(b) for b in bs]
        exp = sel.first_match_oracle(rules, bsc)
        ok = (res.matched == exp[0] and res.merchant == exp[1] and res.category == exp[2]
              and res.subcategory == exp[3] and res.matched_rule is exp[4])
        # rules that do not match have no influence; rules after the winner cannot change it
        kept = []
        for r, b in zip(rules, bsc):
            if b:
                kept.append(r)
                if r is exp[4]:
                    break
        sel.inject_truth(kept, [True] * len(kept))
        res2 = sel.engine_for(kept, 'first_match').match(dict(sel.TXN))
        ok2 = (res2.merchant, res2.category, res2.subcategory) == (res.merchant, res.category, res.subcategory)
        return post(ok and ok2)
    return ob


# ----------------------------------------------------------------------------- 1b. fuzzy() conditions
FUZZY_RULES = '''
[Typo]
match: fuzzy("AB", 9001)
category: CF
subcategory: SF

[Field]
match: fuzzy(field.k, "ABA")
category: CK

[Plain]
match: contains("B")
category: CB
'''
FALPHA = 'ABx'
FLEN = 4


def fuzzy_rules(flen=4, focus='description'):
    """fuzzy() as a rule condition.  difflib hashes characters, so each path holds ONE concrete description (bounded-exhaustive
    over a small alphabet); the threshold stays symbolic.  Expected winner: the independent reference interpreter (harness.ref:
    a sliding window and a written-out Ratcliff/Obershelp similarity - no difflib, no tally code)."""
    from harness import tmpl
    import ast as _ast
    global FLEN
    FLEN = flen

    def core(desc='xAB', fk='', thr=0.6):
        reset_tally_caches()
        desc = _ast.literal_eval(repr(desc))
        fk = _ast.literal_eval(repr(fk))
        values = {9001: thr}
        eng = tmpl.load(FUZZY_RULES, values)
        txn = _mk_txn(desc, 5, fk, 'S', 2024, 12, 7)
        res = eng.match(dict(txn))
        winner, truth = tmpl.oracle_first_match_ref(eng, dict(txn), values)
        exp = (False, '', '', '') if winner is None else (True, winner.merchant, winner.category, winner.subcategory)
        return post((res.matched, res.merchant, res.category, res.subcategory) == exp and res.matched_rule is winner)

    def ob_description(desc: str, thr: float) -> bool:
        """
        pre: len(desc) <= FLEN and all(c in FALPHA for c in desc) and 0.0 < thr <= 1.0
        post: _
        """
        return core(desc=desc, thr=thr)

    def ob_field(fk: str, desc: str) -> bool:
        """
        pre: len(fk) <= FLEN + 1 and all(c in 'AB' for c in fk) and len(desc) <= 1 and all(c in 'Bx' for c in desc)
        post: _
        """
        return core(desc=desc, fk=fk)
    return {'description': ob_description, 'field': ob_field}[focus]


# ----------------------------------------------------------------------------- 2. real conditions
DLEN = 3
SLEN = 2


def _mk_txn(desc, amount, fk, src, y, m, d):
    from datetime import date
    return {'description': desc, 'amount': amount, 'field': {'k': fk}, 'source': src, 'date': date(y, m, d)}


def real_conditions(tname, dlen=3, slen=2, via='engine', gseed=0, refcheck=False, focus='all'):
    """Real MerchantEngine.match (or normalize_merchant through the cached engine) on a template whose pattern
    and threshold constants are symbolic, against the independent first-match oracle of harness.tmpl."""
    from harness import tmpl
    global DLEN, SLEN
    DLEN, SLEN = dlen, slen
    text = tmpl.TEMPLATES[tname] if tname in tmpl.TEMPLATES else tmpl.generated(400, gseed)[tname]

    def core(desc='ab', amount=5, s1='a', s2='a', s3='S', s4='k', n1=3, n2=9, n3=4, fk='k', src='S', y=2024, m=12, d=7):
        reset_tally_caches()
        values = {'@P1': s1, '@P2': s2, '@P3': s3, '@P4': s4, 9001: n1, 9002: n2, 9003: n3}
        eng = tmpl.load(text, values)
        if not tname.startswith('dates'):
            y, m, d = 2024, 12, 7      # concrete date: only the dates template has a symbolic one
        txn = _mk_txn(desc, amount, fk, src, y, m, d)
        if via == 'engine':
            # the same engine has just classified a sibling row: same description, amount and date, other source and custom field
            # (a card payment that shows up in two exports); only the transaction itself may decide the result
            eng.match(dict(txn, source='ZZ', field={'k': 'ZZ'}))
            res = eng.match(dict(txn))
            got = (res.matched, res.merchant, res.category, res.subcategory)
            got_rule = res.matched_rule
        else:
            from tally import merchant_utils
            use_engine(eng)
            real_name = merchant_utils.extract_merchant_name
            merchant_utils.extract_merchant_name = lambda _d: 'FALLBACK'   # the fallback name is the subject of unknown-*
            try:
                mm, cc, ss, info = merchant_utils.normalize_merchant(
                    desc, [], amount=amount, txn_date=txn['date'], field={'k': fk}, data_source=src)
            finally:
                merchant_utils.extract_merchant_name = real_name
            got = (cc != 'Unknown', mm if cc != 'Unknown' else '', cc if cc != 'Unknown' else '', ss if cc != 'Unknown' else '')
            got_rule = None
        winner, truth = tmpl.oracle_first_match(eng, dict(txn))
        if winner is None:
            exp = (False, '', '', '')
        else:
            exp = (True, winner.merchant, winner.category, winner.subcategory)
        ok = got == exp
        if refcheck:
            # ... and the rule conditions are true / false as the independent reference interpreter says (no tally code in the oracle)
            w2, truth2 = tmpl.oracle_first_match_ref(eng, dict(txn), values)
            ok = ok and w2 is winner and truth2 == truth
        if via == 'engine':
            ok = ok and got_rule is winner
            # rules whose condition is false have no influence / rules after the winner cannot change the result
            kept = []
            for r, t in zip(eng.rules, truth):
                if t:
                    kept.append(r)
                    if r is winner:
                        break
            from tally.merchant_engine import MerchantEngine
            e2 = MerchantEngine()
            e2.rules = kept
            e2.variables = dict(eng.variables)
            r2 = e2.match(dict(txn))
            ok = ok and (r2.matched, r2.merchant, r2.category, r2.subcategory) == got
        return post(ok)

    def ob(desc: str, amount: int, s1: str, s2: str, s3: str, s4: str, n1: int, n2: int, n3: int,
           fk: str, src: str, y: int, m: int, d: int) -> bool:
        """
        pre: len(desc) <= DLEN and len(s1) <= SLEN and len(s2) <= SLEN and len(s3) <= SLEN and len(s4) <= SLEN
        pre: len(fk) <= SLEN and len(src) <= SLEN
        pre: 2024 <= y <= 2025 and 1 <= m <= 12 and 1 <= d <= 28
        post: _
        """
        return core(desc, amount, s1, s2, s3, s4, n1, n2, n3, fk, src, y, m, d)

    # Only the inputs an obligation needs are symbolic (DESIGN 7.2): three focus groups per rule file; the others keep the defaults of core()
    def ob_text(desc: str, s1: str, s2: str) -> bool:
        """
        pre: len(desc) <= DLEN and len(s1) <= SLEN and len(s2) <= SLEN
        post: _
        """
        return core(desc=desc, s1=s1, s2=s2)

    def ob_text2(desc: str, s1: str, s2: str) -> bool:
        """
        pre: len(desc) <= DLEN and len(s1) <= SLEN and len(s2) <= SLEN
        post: _
        """
        return core(desc=desc, s1=s1, s2=s2, amount=1, src='T', fk='j')       # the other side of every amount / source / field test

    def ob_context(src: str, s3: str, fk: str, s4: str, big: bool) -> bool:
        """
        pre: len(src) <= SLEN and len(s3) <= SLEN and len(fk) <= SLEN and len(s4) <= SLEN
        post: _
        """
        return core(src=src, s3=s3, fk=fk, s4=s4, amount=5 if big else 1)

    def ob_numbers(amount: int, n1: int, n2: int, n3: int) -> bool:
        """
        post: _
        """
        return core(amount=amount, n1=n1, n2=n2, n3=n3)

    def ob_dates(amount: int, n1: int, y: int, m: int, d: int) -> bool:
        """
        pre: 2024 <= y <= 2025 and 1 <= m <= 12 and 1 <= d <= 28
        post: _
        """
        return core(amount=amount, n1=n1, y=y, m=m, d=d)
    return {'all': ob, 'text': ob_text, 'text2': ob_text2, 'context': ob_context, 'numbers': ob_dates if tname.startswith('dates') else ob_numbers}[focus]


# ----------------------------------------------------------------------------- 3. Unknown fallback
def unknown_name(path, dlen=2):
    """No categorizing rule matches => ('<name>', 'Unknown', 'Unknown') with a name that is a function of the
    description alone (amount, date, source and custom field vary)."""
    global DLEN
    DLEN = dlen

    def ob(desc: str, a1: int, a2: int, f1: str, f2: str) -> bool:
        """
        pre: len(desc) <= DLEN and len(f1) <= 1 and len(f2) <= 1 and all(c in 'aB1 -' for c in desc)
        post: _
        """
        from datetime import date
        from tally import merchant_utils
        from tally.modifier_parser import ParsedPattern
        reset_tally_caches()
        if path == 'engine':
            from tally.merchant_engine import parse_merchants
            use_engine(parse_merchants('[T]\nmatch: amount > 5\ntags: big\n\n[N]\nmatch: amount > 1 and amount < 1\ncategory: Never\n'))
            rules = []
        else:
            rules = [('ZZZZ', 'M', 'Cat', 'Sub', ParsedPattern(regex_pattern='ZZZZ', is_expression=False), 'user', []),
                     ('.', 'T', '', '', ParsedPattern(regex_pattern='.', is_expression=False), 'user', ['x'])]
        r1 = merchant_utils.normalize_merchant(desc, rules, amount=a1, txn_date=date(2024, 1, 2), field={'k': f1}, data_source='S1')
        r2 = merchant_utils.normalize_merchant(desc, rules, amount=7, txn_date=date(2025, 7, 9), field={'k': 'zz'}, data_source='S2')
        ok = r1[1] == 'Unknown' and r1[2] == 'Unknown' and r2[1] == 'Unknown' and r2[2] == 'Unknown'
        ok = ok and r1[0] == r2[0] and isinstance(r1[0], str) and len(r1[0]) > 0
        return post(ok)
    return ob


# ----------------------------------------------------------------------------- 4. legacy CSV tuples with modifiers
class _ReShim:
    def __init__(self, truth):
        import re as _re
        self._re = _re
        self._truth = truth
        self.IGNORECASE = _re.IGNORECASE
        self.error = _re.error

    def search(self, pattern, text, flags=0):
        if pattern in self._truth:
            return self._truth[pattern]
        return self._re.search(pattern, text, flags)

    def __getattr__(self, name):
        return getattr(self._re, name)


LEGACY_ROWS = [
    # (pattern text as written in the CSV, merchant, category, subcategory, tags)
    ('(PATA|X)[amount>100]', 'MA', 'CatA', 'SubA', ''),
    ('PATB or Z[month=6]', 'MB', '', '', 'tagb'),
    ('PATC[amount:10-20][date:2024-03-01..2024-03-31]', 'MC', 'CatC', '', 'tagc'),
    ('PATD[amount=50][date=2024-05-05]', 'MD', 'CatD', 'SubD', ''),
    ('PATE', 'ME', 'CatE', 'SubE', ''),
]


def _legacy_csv_file():
    import tempfile
    import os
    d = tempfile.mkdtemp(prefix='verif_c01_')
    p = os.path.join(d, 'merchant_categories.csv')
    with open(p, 'w') as f:
        f.write('Pattern,Merchant,Category,Subcategory,Tags\n# comment\n\n')
        for row in LEGACY_ROWS:
            f.write(','.join(row) + '\n')
    return p


def legacy_modifiers(rows):
    """Legacy tuple loop on rules loaded by the real load_merchant_rules from a CSV file (written before the
    analysis starts).  Regex truth is a symbolic vector (re.search stubbed); modifier values, amount and date
    are symbolic.  Oracle: pattern found AND every modifier holds; first categorizing match wins."""
    path = _legacy_csv_file()
    rows = list(rows)

    def ob(b0: bool, b1: bool, b2: bool, b3: bool, b4: bool, amount: int, cents: int,
           v0: int, lo: int, hi: int, v3: int, mon: int, y: int, m: int, d: int) -> bool:
        """
        pre: 0 <= cents <= 99 and 2024 <= y <= 2024 and 1 <= m <= 12 and 1 <= d <= 28 and 1 <= mon <= 12
        post: _
        """
        from datetime import date
        from tally import merchant_utils
        reset_tally_caches()
        allrules = merchant_utils.get_all_rules(path)
        rules = [allrules[i] for i in rows]
        bs = [b0, b1, b2, b3, b4]
        amt = amount + cents / 100
        # symbolic modifier values
        for r in rules:
            parsed = r[4]
            for c in parsed.amount_conditions:
                if c.operator == '>':
                    c.value = v0
                elif c.operator == ':':
                    c.min_value, c.max_value = lo, hi
                elif c.operator == '=':
                    c.value = v3
            for c in parsed.date_conditions:
                if c.operator == 'month':
                    c.month = mon
        truth = {allrules[i][0]: bs[i] for i in rows}
        real_re = merchant_utils.re
        merchant_utils.re = _ReShim(truth)
        dt = date(y, m, d)
        try:
            mm, cc, ss, info = merchant_utils.normalize_merchant('PROBE', rules, amount=amt, txn_date=dt, data_source='S')
        finally:
            merchant_utils.re = real_re
        exp = ('Probe', 'Unknown', 'Unknown')
        exptags = []
        for i in rows:
            if not bool(bs[i]):
                continue
            okmod = True
            if i == 0:
                okmod = amt > v0
            elif i == 1:
                okmod = dt.month == mon
            elif i == 2:
                okmod = (lo <= amt and amt <= hi) and (date(2024, 3, 1) <= dt <= date(2024, 3, 31))
            elif i == 3:
                okmod = (-0.01 < amt - v3 < 0.01) and dt == date(2024, 5, 5)
            if not okmod:
                continue
            row = LEGACY_ROWS[i]
            if row[4]:
                exptags.append(row[4])
            if exp[1] == 'Unknown' and row[2]:
                exp = (row[1], row[2], row[3])
        got_tags = list(info['tags']) if info else []
        return post((mm, cc, ss) == exp and got_tags == exptags)
    return ob


# ----------------------------------------------------------------------------- 5. transforms
T_TRANSFORM = """
field.description = strip_prefix(field.description, "@P1")
field.memo = strip_prefix(field.memo, "@P2")
field.memo = uppercase(field.memo)

[M]
match: field.memo == "@P3"
category: CM

[D]
match: startswith("@P4")
category: CD
subcategory: SD
"""


def transforms_chain(part, dlen=2, slen=1):
    """Field transforms are applied in file order, each seeing the result of the previous one, before matching."""
    from harness import tmpl
    global DLEN, SLEN
    DLEN, SLEN = dlen, slen

    def ob(desc: str, memo: str, s1: str, s2: str, s3: str, s4: str) -> bool:
        """
        pre: len(desc) <= DLEN and len(memo) <= DLEN and len(s1) <= SLEN and len(s2) <= SLEN and len(s3) <= DLEN and len(s4) <= SLEN
        post: _
        """
        from tally import merchant_utils
        reset_tally_caches()
        if part == 'memo':
            desc, s1, s4 = 'QQ', 'Q', 'ZZZ'      # description side concrete, never matches [D]
        else:
            memo, s2, s3 = 'mm', 'x', 'never'     # memo side concrete, never matches [M]
        values = {'@P1': s1, '@P2': s2, '@P3': s3, '@P4': s4}
        eng = tmpl.load(T_TRANSFORM, values)
        use_engine(eng)
        mm, cc, ss, info = merchant_utils.normalize_merchant(desc, [], amount=5, field={'memo': memo}, data_source='S',
                                                              transforms=eng.transforms)
        # documented semantics, applied by hand
        d2 = desc[len(s1):] if desc.upper().startswith(s1.upper()) else desc
        m1 = memo[len(s2):] if memo.upper().startswith(s2.upper()) else memo
        m2 = m1.upper()
        if m2.lower() == s3.lower():
            exp = ('M', 'CM', '')
        elif d2.upper().startswith(s4.upper()):
            exp = ('D', 'CD', 'SD')
        else:
            exp = None
        if exp is None:
            ok = cc == 'Unknown' and ss == 'Unknown'
        else:
            ok = (mm, cc, ss) == exp
        raw = (info or {}).get('raw_values', {})
        ok = ok and (raw.get('_raw_description', desc) == desc)
        return post(ok)
    return ob


def obligations(tier, seed):
    obs = []
    for n in [1, 2]:
        obs.append(Obligation(id=f'sel-first-n{n}', factory='sel_first', params={'n': n}, timeout=90,
                              group='selection core', bounds=f'{n} rules; truth vector, has-category and has-subcategory flags symbolic'))
    import itertools
    for c0 in (False, True):
        for c1 in (False, True):
            obs.append(Obligation(id=f'sel-first-n3-c{int(c0)}{int(c1)}', factory='sel_first',
                                  params={'n': 3, 'cats': None, 'subs': None} if False else {'n': 3, 'cats': [c0, c1, True], 'subs': None},
                                  timeout=90, group='selection core',
                                  bounds='3 rules; has-category fixed (%s,%s,True); truth vector and has-subcategory symbolic' % (c0, c1)))
    obs.append(Obligation(id='sel-first-n3-cxx0', factory='sel_first', params={'n': 3, 'cats': [True, True, False], 'subs': [True, False, True]},
                          timeout=90, group='selection core', bounds='3 rules; last rule tag-only; truth vector symbolic'))
    if tier == 'thorough':
        for cats in itertools.product([False, True], repeat=4):
            obs.append(Obligation(id='sel-first-n4-c' + ''.join('1' if c else '0' for c in cats), factory='sel_first',
                                  params={'n': 4, 'cats': list(cats)}, timeout=300, group='selection core',
                                  bounds='4 rules; has-category pattern fixed, truth vector and has-subcategory symbolic'))
    from harness import tmpl as _t
    tnames = list(_t.TEMPLATES)
    q = tier == 'quick'
    for focus in ['description', 'field']:
        fl = 4 if q else 5
        obs.append(Obligation(id=f'fuzzy-{focus}', factory='fuzzy_rules', params={'flen': fl, 'focus': focus}, reals=True, timeout=170 if q else 900, group='fuzzy() conditions',
                              bounds=f'3 rules (fuzzy("AB", t), fuzzy(field.k, "ABA"), contains("B")); ' + (f'description <= {fl} chars over {FALPHA!r} (one concrete text per path), symbolic threshold in (0, 1]' if focus == 'description'
                                                                                                          else f'field value <= {fl + 1} chars over "AB", description <= 1 char over "Bx"')))
    dl, sl = (2, 1) if q else (3, 2)
    FOCUS = {'text': 'description and the two pattern constants symbolic (description <= %d, constants <= %d ASCII chars)',
             'text2': 'as text, with the fixed amount / source / field on the other side of the files\' tests (description <= %d, constants <= %d)',
             'context': 'source, custom field and the constants they are compared with symbolic (<= %d chars), amount on either side of the thresholds',
             'numbers': 'integer amount and the three thresholds symbolic (dates templates: amount, one threshold, date in 2024-2025)'}
    fdl, fsl = (3, 2) if q else (4, 2)       # per focus group the strings can be longer than when everything is symbolic at once
    HEAVY = {('srcvars', 'context'): (3, 1), ('fields2', 'context'): (3, 1), ('funcs1', 'text'): (2, 2), ('funcs1', 'text2'): (2, 2)}    # quick tier: shorter strings where the focus group alone is large
    for t in tnames:
        for focus in FOCUS:
            xdl, xsl = HEAVY.get((t, focus), (fdl, fsl)) if q else (fdl, fsl)
            obs.append(Obligation(id=f'real-{t}-{focus}', factory='real_conditions', params={'tname': t, 'dlen': xdl, 'slen': xsl, 'refcheck': True, 'focus': focus},
                                  timeout=170 if q else 900, group='real conditions',
                                  bounds=f'template {t}: ' + (FOCUS[focus] % ((xdl, xsl) if focus.startswith('text') else (xsl,) if focus == 'context' else ())) + '; the other inputs fixed'))
        if not q:
            obs.append(Obligation(id=f'real-{t}', factory='real_conditions', params={'tname': t, 'dlen': dl, 'slen': sl, 'refcheck': True},
                                  timeout=1500, group='real conditions',
                                  bounds=f'template {t}: everything symbolic at once - description <= {dl}, string constants/field/source <= {sl} ASCII chars, integer amount and thresholds, date in 2024-2025'))
    for t in (['letshadow', 'fields1', 'vars2'] if q else tnames):
        for focus in FOCUS:
            obs.append(Obligation(id=f'norm-{t}-{focus}', factory='real_conditions', params={'tname': t, 'dlen': fdl, 'slen': fsl, 'via': 'normalize', 'focus': focus},
                                  timeout=170 if q else 900, group='normalize_merchant, engine path',
                                  bounds=f'template {t} through normalize_merchant with the cached engine: ' + (FOCUS[focus] % ((fdl, fsl) if focus.startswith('text') else (fsl,) if focus == 'context' else ()))))
    for t in list(_t.generated(8 if q else 30, seed)):
        # thorough: many more generated files (breadth); the hand-written templates above also get the everything-at-once obligation (depth)
        for focus in FOCUS:
            obs.append(Obligation(id=f'real-{t}-{focus}', factory='real_conditions', params={'tname': t, 'dlen': 2, 'slen': 1 if focus.startswith('text') else 2, 'gseed': seed, 'refcheck': True, 'focus': focus},
                                  timeout=170 if q else 300, group='real conditions (generated rule files)',
                                  bounds=f'generated rule file {t} (2-3 random rule blocks + the global variables they use, VERIF_SEED={seed}): ' + (FOCUS[focus] % ((2, 1) if focus.startswith('text') else (2,) if focus == 'context' else ()))))
    for path in ['engine', 'legacy']:
        obs.append(Obligation(id=f'unknown-{path}', factory='unknown_name', params={'path': path, 'dlen': 2 if q else 3}, timeout=170 if q else 1500,
                              group='Unknown fallback', bounds=f'description <= {2 if q else 3} chars over the alphabet (a,B,1,blank,-); two different amounts/dates/sources/fields'))
    for i, rows in enumerate([[0, 1, 4], [2, 4], [3, 4], [1, 3, 0]] if tier == 'quick' else [[0, 1, 4], [2, 4], [3, 4], [2, 3, 4], [1, 3, 0], [0, 1, 2, 3, 4], [4, 3, 2, 1, 0]]):
        obs.append(Obligation(id=f'legacy-mod-{i}', factory='legacy_modifiers', params={'rows': rows}, timeout=170 if tier == 'quick' else 900, reals=True,
                              group='legacy CSV tuples', bounds='CSV rows %r loaded by the real loader; regex truth vector (re.search stubbed), modifier values, amount (two decimals) and date symbolic' % rows))
    for part in ['memo', 'desc']:
      obs.append(Obligation(id=f'transforms-{part}', factory='transforms_chain', params={'part': part, 'dlen': dl, 'slen': sl}, timeout=170 if tier == 'quick' else 1500,
                          group='transforms', bounds=f'3 transforms (description prefix, memo prefix, memo uppercase); description/memo/compared constant <= {dl}, prefixes <= {sl} ASCII chars'))
    return obs
