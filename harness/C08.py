"""C08 - a rule that fails to evaluate is skipped; it never aborts classification."""
from engine.ob import use_engine
from engine.ob import Obligation, post, reset_tally_caches, inject, inject_tree

LEVEL = 'other'
EXPLANATION = ('Bounded symbolic execution (CrossHair + z3) of the real engine / normalize_merchant / apply_transforms / '
               'classify_merchants on rule and view files that contain one ill-typed or partial expression (from a family '
               'generated from the documented grammar) with symbolic operand values.  The call must return normally and equal '
               'the oracle in which an expression without a value makes just that rule, binding, field, tag, transform or view '
               'inapplicable for that item; sequences of two items on one engine check that a failure for one item does not '
               'disable the rule for the next.')
FUNCTIONS = ['MerchantEngine.match', 'MerchantEngine._evaluate_variables/_evaluate_let_bindings/_evaluate_fields/_resolve_tags',
             'merchant_utils.normalize_merchant (legacy loop, _resolve_dynamic_tags)', 'merchant_utils.apply_transforms',
             'section_engine.classify_merchants / evaluate_section_filter / evaluate_variables', 'expr_parser.TransactionEvaluator / ExpressionEvaluator']
BOUNDS = 'description/field <= 2 ASCII chars, string operands <= 1-2 chars, integer operands; 2 supplemental rows; 1-2 merchants with 2 payments'
OUTSIDE = 'expression shapes not in the family; non-ASCII; parse_generic_csv/cmd_run wiring (C05/C11)'
STUBS = []
TRUSTED = ['ast.parse literal -> Constant']
ASSUMPTIONS = []

SLEN = 1

# ill-typed / partial match expressions.  Placeholders: "@P1" (str), 9001 (int)
BAD_MATCH = [
    'amount > "@P1"', 'contains(9001)', 'description + 9001 == "x"', '-description == 1', 'abs("@P1") > 1',
    'substring("a", "b") == ""', 'next(r for r in orders if r.amount > 9001) == 1', 'orders[5].amount > 9001',
    'sum(orders) > 1', 'max(r.amount for r in orders if r.amount > 9001) > 0', 'regex("(")',
    'regex_replace(description, "(", "") == ""', 'extract("[") == ""', 'field.nope == "@P1"', 'unknown > 9001',
    'len(amount) > 1', 'amount.lower() == "@P1"', '"@P1" < 9001', 'split("", 0) == "x"', 'date > "not-a-date"',
    'round(amount, "@P1") > 1', 'any(amount)', 'all(9001)', 'amount in 9001', '"@P1" in amount', '1 / "@P1" > 0',
    'amount % "x" == 9001', 'description[7] == "@P1"', 'description["@P1"] == "a"', 'orders[0].nope == 1',
    'min() > 1', 'nosuch(1)', 'description.nosuch()', 'startswith(description, 9001)', 'anyof("@P1", 9001)',
    '[r.x for r in 9001] == 1', 'next(9001)', 'field.k.k == "a"', 'txn.nope == 1', 'len(orders, orders) > 0',
]


def _rows(r1, r2):
    return {'orders': [{'amount': r1, 'ref': 'a', 'total': 9}, {'amount': r2, 'ref': 'b', 'total': 120}]}


def bad_match(i, after=False):
    """[Bad] (category CB, tags tb) carries an expression that may have no value; [Good] and [Tag] are ordinary.
    after=True: a tag-only rule that may match the same transaction stands directly before [Bad]."""
    from harness import tmpl
    expr = BAD_MATCH[i]
    pre = '[Pre]\nmatch: contains("@P2") or amount > 9002\ntags: tp\n' if after else ''
    text = f'''
{pre}
[Bad]
match: {expr}
category: CB
tags: tb

[Good]
match: contains("@P2")
category: CG
subcategory: SG
tags: tg

[Tag]
match: amount > 9002
tags: tt
'''

    def ob(desc: str, amount: int, s1: str, s2: str, n1: int, n2: int, r1: int, r2: int) -> bool:
        """
        pre: len(desc) <= 2 and len(s1) <= SLEN and len(s2) <= SLEN
        post: _
        """
        from datetime import date
        reset_tally_caches()
        values = {'@P1': s1, '@P2': s2, 9001: n1, 9002: n2}
        eng = tmpl.load(text, values)
        txn = {'description': desc, 'amount': amount, 'field': {'k': 'kv'}, 'source': 'S', 'date': date(2024, 5, 6)}
        rows = _rows(r1, r2)
        res = eng.match(dict(txn), data_sources=rows)          # must return normally
        winner, truth = tmpl.oracle_first_match(eng, dict(txn), rows)
        exp = (False, '', '', '') if winner is None else (True, winner.merchant, winner.category, winner.subcategory)
        ok = (res.matched, res.merchant, res.category, res.subcategory) == exp
        exptags = set()
        for r, t in zip(eng.rules, truth):
            if t:
                exptags |= {x.lower() for x in r.tags}
        return post(ok and res.tags == exptags)
    return ob


def sequence_same_engine():
    """A rule that has no value for one item must still apply to the next item on the same engine."""
    from harness import tmpl
    text = '''
[Big Order]
match: abs(next((r.total for r in orders if r.ref == field.k), "none")) > 100
category: CBig

[Plain]
match: contains("@P1")
category: CPlain
'''

    def ob(k1: str, k2: str, desc: str, s1: str) -> bool:
        """
        pre: len(k1) <= 1 and len(k2) <= 1 and len(desc) <= 2 and len(s1) <= 1
        post: _
        """
        reset_tally_caches()
        eng = tmpl.load(text, {'@P1': s1})
        rows = _rows(1, 2)
        t1 = {'description': desc, 'amount': 5, 'field': {'k': k1}, 'source': 'S'}
        t2 = {'description': desc, 'amount': 5, 'field': {'k': k2}, 'source': 'S'}
        eng.match(dict(t1), data_sources=rows)
        res = eng.match(dict(t2), data_sources=rows)
        winner, _ = tmpl.oracle_first_match(eng, dict(t2), rows)
        exp = (False, '') if winner is None else (True, winner.category)
        return post((res.matched, res.category) == exp)
    return ob


def sequence_bad_regex():
    """A condition with a regular expression that does not compile has no value EVERY time it is evaluated - for the second
    transaction on the same engine as for the first.  The oracle is the independent reference interpreter."""
    from harness import tmpl
    text = '''
[Rides]
match: contains("@P1") and not regex("EATS(")
category: CR
tags: rides

[Plain]
match: contains("@P2") or regex("[a-") or contains("@P1")
category: CPlain
'''

    def ob(d1: str, d2: str, s1: str, s2: str) -> bool:
        """
        pre: len(d1) <= 2 and len(d2) <= 2 and len(s1) <= 1 and len(s2) <= 1
        post: _
        """
        reset_tally_caches()
        values = {'@P1': s1, '@P2': s2}
        eng = tmpl.load(text, values)
        t1 = {'description': d1, 'amount': 5, 'field': {'k': 'kv'}, 'source': 'S'}
        t2 = {'description': d2, 'amount': 5, 'field': {'k': 'kv'}, 'source': 'S'}
        ok = True
        for t in (t1, t2, t1):
            res = eng.match(dict(t))
            winner, _ = tmpl.oracle_first_match_ref(eng, dict(t), values)
            exp = (False, '') if winner is None else (True, winner.category)
            ok = ok and (res.matched, res.category) == exp
        return post(ok)
    return ob


POSITIONS = {
    # position -> (rules text, expected behaviour checked below)
    'variable': '''
v = amount > "@P1"
w = amount > 9001

[UsesV]
match: v
category: CV

[UsesW]
match: w and contains("@P2")
category: CW
''',
    'let': '''
[L]
let: a = abs("@P1")
let: b = amount + 9001
match: b > 9002 and contains("@P2")
category: CL
''',
    'field': '''
[F]
match: contains("@P2")
category: CF
field: bad = abs("@P1")
field: good = amount + 9001
''',
    'tag': '''
[T]
match: contains("@P2")
category: CT
tags: st, {field.k - amount}, {abs("@P1")}, {field.k}
''',
}


def position(pos):
    from harness import tmpl
    text = POSITIONS[pos]

    def ob(desc: str, amount: int, s1: str, s2: str, n1: int, n2: int) -> bool:
        """
        pre: len(desc) <= 2 and len(s1) <= SLEN and len(s2) <= SLEN
        post: _
        """
        reset_tally_caches()
        eng = tmpl.load(text, {'@P1': s1, '@P2': s2, 9001: n1, 9002: n2})
        txn = {'description': desc, 'amount': amount, 'field': {'k': 'Kv'}, 'source': 'S'}
        res = eng.match(dict(txn))
        hit = s2.upper() in desc.upper()
        if pos == 'variable':
            exp = 'CW' if (amount > n1 and hit) else ''
            return post(res.category == exp)
        if pos == 'let':
            exp = 'CL' if (amount + n1 > n2 and hit) else ''
            return post(res.category == exp)
        if pos == 'field':
            if not hit:
                return post(not res.matched)
            return post(res.category == 'CF' and res.extra_fields == {'good': amount + n1})
        if pos == 'tag':
            if not hit:
                return post(res.tags == set())
            return post(res.category == 'CT' and res.tags == {'st', 'kv'})
        return post(False)
    return ob


def legacy_dynamic_tag():
    """Legacy CSV tuples with an ill-typed dynamic tag: normalize_merchant returns, the tag is dropped, others kept."""
    def ob(desc: str, amount: int, fk: str) -> bool:
        """
        pre: len(desc) <= 2 and len(fk) <= 1 and all(c in 'aB ' for c in fk)
        post: _
        """
        import re
        reset_tally_caches()
        from tally.merchant_utils import normalize_merchant
        from tally.modifier_parser import ParsedPattern
        rules = [('A', 'MA', 'CatA', 'SubA', ParsedPattern(regex_pattern='A', is_expression=False), 'user',
                  ['travel', '{field.k * amount}', '{abs(field.k)}', '{field.k}'])]
        m, c, s, info = normalize_merchant(desc, rules, amount=amount + 0.5, field={'k': fk}, data_source='S')
        if re.search('A', desc.upper(), re.IGNORECASE):
            exp = ['travel'] + ([fk.strip().lower()] if fk.strip() else [])
            return post(c == 'CatA' and list(info['tags']) == exp)
        return post(c == 'Unknown' and info is None)
    return ob


T_FAILING_TRANSFORMS = '''
field.description = regex_replace(field.description, "(", "")
field.memo = field.nope + 1
field.description = uppercase(description) + 1
field.other = amount > "x"

[D]
match: startswith("@P1")
category: CD
'''


def failing_transform():
    def ob(desc: str, s1: str) -> bool:
        """
        pre: len(desc) <= 2 and len(s1) <= 1
        post: _
        """
        from harness import tmpl
        from tally import merchant_utils
        reset_tally_caches()
        eng = tmpl.load(T_FAILING_TRANSFORMS, {'@P1': s1})
        use_engine(eng)
        real = merchant_utils.extract_merchant_name
        merchant_utils.extract_merchant_name = lambda _d: 'FALLBACK'
        try:
            m, c, s, info = merchant_utils.normalize_merchant(desc, [], amount=3, field={'memo': 'mm'}, data_source='S', transforms=eng.transforms)
        finally:
            merchant_utils.extract_merchant_name = real
        exp = 'CD' if desc.upper().startswith(s1.upper()) else 'Unknown'
        return post(c == exp)
    return ob


BAD_FILTERS = ['total > "@P1"', 'sum(payments) / "@P1" > 1', 'max(by("month")) > "@P1"', 'stddev("@P1") > 1', 'unknown_fn(1)',
               'by("fortnight")', 'period("decade") > 1', 'cv.lower() == "x"', 'nosuch > 9001', 'sum(9001) > 1',
               'avg(by("month")) > 9001', '"x" in months', 'max_val(total) > 1', 'total.amount > 1', 'payments[9001] > 1',
               'round(total, "@P1") > 1', 'tags > 9001', 'category + 9001 == "a"', 'min_val("@P1", 9001) > 1', '-category == 1']


def bad_view(i):
    """classify_merchants on a views file whose middle view has a filter without a value: that view excludes the merchant,
    the other views and the run are unaffected."""
    expr = BAD_FILTERS[i]
    text = f'''
g = total > 9002
bad_global = total + "@P1"

[Before]
filter: total > 9002

[Broken]
local = total / "@P1"
filter: {expr}

[UsesBadVars]
filter: bad_global > 1

[After]
filter: g and category == "@P2"
'''

    def ob(a1: int, a2: int, s1: str, s2: str, n1: int, n2: int, cat: str) -> bool:
        """
        pre: len(s1) <= 1 and len(s2) <= 1 and len(cat) <= 1
        post: _
        """
        from datetime import datetime
        from tally import section_engine
        reset_tally_caches()
        cfg = section_engine.parse_sections(text)
        values = {'@P1': s1, '@P2': s2, 9001: n1, 9002: n2}
        for sec in cfg.sections:
            inject_tree(sec.filter_ast, values)
            for e in sec.variables.values():
                inject(e, values)
        for e in cfg.global_variables.values():
            inject(e, values)
        txns = [{'amount': a1, 'date': datetime(2024, 3, 15), 'category': cat, 'subcategory': 'S', 'merchant': 'M', 'tags': ['t']},
                {'amount': a2, 'date': datetime(2024, 4, 15), 'category': cat, 'subcategory': 'S', 'merchant': 'M', 'tags': ['t']}]
        groups = [{'merchant': 'M', 'category': cat, 'subcategory': 'S', 'transactions': txns, 'data': {}}]
        res = section_engine.classify_merchants(cfg, groups, 12, period_data={'month': 2, 'year': 1})
        big = (a1 + a2) > n2
        ok = (len(res['Before']) == 1) == big
        ok = ok and len(res['Broken']) == 0 and len(res['UsesBadVars']) == 0
        ok = ok and (len(res['After']) == 1) == (big and cat.lower() == s2.lower())
        ok = ok and list(res.keys()) == ['Before', 'Broken', 'UsesBadVars', 'After']
        return post(ok)
    return ob


T_LAZY_FIELD = '''
[Amazon]
match: contains("@P1")
category: Shopping
field: items = (o.item for o in orders if o.amount == amount and o.date <= date)
field: first = next((o.item for o in orders if o.date <= date), "none")
field: n = len([o for o in orders if o.amount > 9001])
'''


def lazy_field():
    """A field: written as a generator expression is lazy; whatever normalize_merchant does with it, an item it cannot be
    evaluated for must not abort the classification."""
    def ob(desc: str, amount: int, s1: str, n1: int, r1: int) -> bool:
        """
        pre: len(desc) <= 2 and len(s1) <= 1
        post: _
        """
        from datetime import date
        from harness import tmpl
        from tally import merchant_utils
        reset_tally_caches()
        eng = tmpl.load(T_LAZY_FIELD, {'@P1': s1, 9001: n1})
        use_engine(eng)
        rows = {'orders': [{'amount': r1, 'item': 'book', 'date': date(2024, 1, 1)}, {'amount': amount, 'item': 'pending', 'date': 'Pending'}]}
        real = merchant_utils.extract_merchant_name
        merchant_utils.extract_merchant_name = lambda d: 'FALLBACK'
        try:
            m, c, s, info = merchant_utils.normalize_merchant(desc, [], amount=amount, txn_date=date(2024, 5, 6), data_sources=rows)
        finally:
            merchant_utils.extract_merchant_name = real
        exp = 'Shopping' if s1.upper() in desc.upper() else 'Unknown'
        return post(c == exp)
    return ob


T_LAZY_TAG = '''
is_big = amount > 9001

[G]
let: refs = field.nope
match: contains("@P1")
category: Shopping
field: things = (r for r in refs)
tags: st, {(r.item for r in refs)}, {(r.label for r in orders if r.amount == amount)}, {[r.item for r in orders if r.nope == 1]}, {next(r.item for r in orders if r.amount > 9003)}, {(r.item for r in orders if r.amount < amount)}

[Skipped]
match: (is_big := amount > 9002) and field.nope == "x"
category: Never
tags: never

[Big]
match: is_big
tags: large
'''


def lazy_tag(via='engine'):
    """Dynamic tags written as generator / list / next() expressions over supplemental rows for which an item cannot be evaluated, and
    a rule that binds a name with := before it fails: the classification completes, the failing tag or rule is simply not there
    (static tags stay, the global variable of the same name keeps its own value for the later rule)."""
    def ob(desc: str, amount: int, s1: str, n1: int, n2: int, r1: int) -> bool:
        """
        pre: len(desc) <= 2 and len(s1) <= 1 and amount < 1000000 and r1 < 1000000
        post: _
        """
        from datetime import date
        from harness import tmpl
        from tally import merchant_utils
        reset_tally_caches()
        eng = tmpl.load(T_LAZY_TAG, {'@P1': s1, 9001: n1, 9002: n2, 9003: 1000000})
        rows = {'orders': [{'amount': r1, 'item': 'book'}, {'amount': amount, 'item': 'pen'}, {'amount': amount}]}     # rows without `label` / `item`
        hit = s1.upper() in desc.upper()
        if via == 'engine':
            res = eng.match({'description': desc, 'amount': amount, 'field': {'k': 'v'}, 'source': 'S', 'date': date(2024, 5, 6)}, data_sources=rows)
            cat, tags = res.category, set(res.tags)
        else:
            use_engine(eng)
            real = merchant_utils.extract_merchant_name
            merchant_utils.extract_merchant_name = lambda d: 'FALLBACK'
            try:
                m, c, sc, info = merchant_utils.normalize_merchant(desc, [], amount=amount, txn_date=date(2024, 5, 6), field={'k': 'v'}, data_sources=rows)
            finally:
                merchant_utils.extract_merchant_name = real
            cat, tags = ('' if c == 'Unknown' else c), set((info or {}).get('tags', []))
        exp_tags = ({'st'} if hit else set()) | ({'large'} if amount > n1 else set()) | ({'book'} if (hit and r1 < amount) else set())      # a generator tag stands for its items
        return post(cat == ('Shopping' if hit else '') and tags == exp_tags)
    return ob


def obligations(tier, seed):
    q = tier == 'quick'
    obs = []
    to = 100 if q else 600
    for i, e in enumerate(BAD_MATCH):
        if i % 4 == 0:
            obs.append(Obligation(id=f'match-{i:02d}-after', factory='bad_match', params={'i': i, 'after': True}, timeout=to, group='ill-typed match expression',
                                  bounds=f'{BAD_MATCH[i]!r} directly after a tag-only rule that may match the same transaction; same bounds'))
        obs.append(Obligation(id=f'match-{i:02d}', factory='bad_match', params={'i': i}, timeout=to, group='ill-typed match expression',
                              bounds=f'[Bad] match: {e}; description <= 2, operands <= 1 char / ints, 2 supplemental rows with symbolic amounts'))
    obs.append(Obligation(id='sequence-bad-regex', factory='sequence_bad_regex', timeout=to, group='item independence',
                          bounds='two rules with regular expressions that do not compile; three classifications on one engine; descriptions <= 2, constants <= 1 chars'))
    obs.append(Obligation(id='sequence-same-engine', factory='sequence_same_engine', timeout=to, group='item independence',
                          bounds='two transactions on one engine; field value <= 1 char each; the rule has no value when no supplemental row matches'))
    for via in ['engine', 'normalize']:
        obs.append(Obligation(id=f'lazy-tag-{via}', factory='lazy_tag', params={'via': via}, timeout=250 if q else 600, group='failing variable / let / field / tag',
                              bounds=f'3 rules through {via}: generator / list / next() dynamic tags over 3 supplemental rows lacking the columns they read, a := rule that fails after binding; description <= 2, pattern <= 1, integer amount / thresholds / row amount symbolic'))
    for pos in POSITIONS:
        obs.append(Obligation(id=f'position-{pos}', factory='position', params={'pos': pos}, timeout=to, group='failing variable / let / field / tag',
                              bounds='description <= 2, operands <= 1 char / ints'))
    obs.append(Obligation(id='legacy-dynamic-tag', factory='legacy_dynamic_tag', timeout=to, reals=True, group='legacy loop',
                          bounds='one CSV tuple with ill-typed dynamic tags; description <= 2, field <= 1 char over (a,B,blank)'))
    obs.append(Obligation(id='lazy-field', factory='lazy_field', timeout=to, group='failing variable / let / field / tag',
                          bounds='rule with generator-valued / partial field: directives through normalize_merchant; description <= 2, operands <= 1 char / ints'))
    obs.append(Obligation(id='failing-transform', factory='failing_transform', timeout=to, group='failing transforms',
                          bounds='4 transforms without a value; description <= 2, prefix <= 1'))
    for i, e in enumerate(BAD_FILTERS):
        obs.append(Obligation(id=f'view-{i:02d}', factory='bad_view', params={'i': i}, timeout=to, group='ill-typed view filter',
                              bounds=f'[Broken] filter: {e}; one merchant with two payments (symbolic ints) in two months; thresholds/strings symbolic'))
    return obs
