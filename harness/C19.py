"""C19 - every rule that discover suggests matches the transaction it was suggested for."""
from engine.ob import Obligation, post, reset_tally_caches

LEVEL = 'other'
EXPLANATION = ('Bounded symbolic execution (CrossHair + z3) of the real suggest_pattern / suggest_merchant_name / suggest_merchants_rule on a '
               'symbolic description; the suggested rule text is given a category, loaded by the real parse_merchants and matched against '
               'that very description by the real engine.  The derived text reaches ast.parse and re.compile, where CrossHair concretises '
               'it, so each path covers one concrete pattern: the verdict is bounded-exhaustive over a small alphabet, and structured '
               'longer descriptions are covered by skeletons with symbolic words.')
FUNCTIONS = ['commands.discover.suggest_pattern', 'suggest_merchant_name', 'suggest_match_expr', 'suggest_merchants_rule',
             'merchant_engine.parse_merchants', 'MerchantEngine.match', 'expr_parser._fn_regex/_fn_contains']
BOUNDS = 'free descriptions <= 2 (quick) / 3 (thorough) chars over the alphabet a B 1 blank * . \\ " # ] ; skeletons with words of 1 char over a B 9 . * (thorough: two-word skeletons also 1-2 chars over a 9 *)'
OUTSIDE = 'descriptions outside the alphabet/skeletons; non-ASCII (upper-casing of non-ASCII text)'
STUBS = []
TRUSTED = []
ASSUMPTIONS = ['symbolic text is 7-bit ASCII']

ALPHABET = 'aB1 *.' + chr(92) + '"#]'
DLEN = 2


def _check(desc):
    import ast as _ast
    # CrossHair's model of re.sub with a group reference in the replacement is not faithful on symbolic text, and the derived
    # text reaches ast.parse / re.compile anyway: fix the description's value here (one concrete description per path).
    desc = _ast.literal_eval(repr(desc))
    from tally.commands.discover import suggest_pattern, suggest_merchant_name, suggest_merchants_rule
    from tally.merchant_engine import parse_merchants, MerchantParseError
    pattern = suggest_pattern(desc)
    merchant = suggest_merchant_name(desc)
    rule = suggest_merchants_rule(merchant, pattern)
    rule = rule.replace('category: CATEGORY', 'category: Food').replace('subcategory: SUBCATEGORY', 'subcategory: Sub')
    # the user's file already holds a look-alike rule (the same expression with the letter case of its regex escapes swapped:
    # \\s <-> \\S ...), evaluated before the suggested one - a suggestion must work next to the rules that are there
    from tally import expr_parser
    for line in rule.splitlines():
        if line.strip().lower().startswith('match:'):
            expr = line.split(':', 1)[1].strip()
            twin = ''.join((c.swapcase() if (i > 0 and expr[i - 1] == chr(92) and c in 'sSdDwWbB') else c) for i, c in enumerate(expr))
            if twin != expr:
                try:
                    expr_parser.matches_transaction(twin, {'description': desc, 'amount': 1.0})
                except Exception:
                    pass
    try:
        eng = parse_merchants(rule)
    except MerchantParseError:
        return False
    if len(eng.rules) != 1:
        return False
    res = eng.match({'description': desc, 'amount': 1.0})
    return bool(res.matched and res.category == 'Food')


def free(dlen):
    global DLEN
    DLEN = dlen

    def ob(desc: str) -> bool:
        """
        pre: 1 <= len(desc) <= DLEN and all(c in ALPHABET for c in desc) and desc.strip() != ''
        post: _
        """
        reset_tally_caches()
        return post(_check(desc))
    return ob


SKELETONS = {
    'two-words': '{w1} {w2}',
    'store-number': '{w1} {w2} #12 {w3}',
    'state-suffix': '{w1} {w2} WA',
    'zip': '{w1} {w2} 98101',
    'long-id': '{w1} 123456 {w2}',
    'sq-prefix': 'SQ *{w1} {w2}',
    'aplpay-prefix': 'APLPAY {w1}',
    'pp-middle': '{w1}PP*{w2} {w3}',
    'sp-middle': '{w1} SP {w2}',
    'google-middle': '{w1} GOOGLE *{w2}',
    'quoted': 'THE "{w1}" {w2}',
    'quote-hash': '{w1}" #{w2}',
    'four-words': '{w1} {w2} {w3} x',
    'open-paren': '{w1} {w2} (LOT 4',
    'paren-cut': '{w1} CLIPS ({w2} MALL) BELLEVUE WA',
    'paren-balanced': 'SQ *{w1} ({w2}) SEATTLE WA',
}


WLEN = 1


WALPHA = 'aB9.*'


def skeleton(key, wlen=1, alpha='aB9.*'):
    templ = SKELETONS[key]
    global WLEN, WALPHA
    WLEN, WALPHA = wlen, alpha

    def ob3(w1: str, w2: str, w3: str) -> bool:
        """
        pre: 1 <= len(w1) <= WLEN and 1 <= len(w2) <= WLEN and len(w3) == 1 and all(c in WALPHA for c in w1 + w2 + w3)
        post: _
        """
        reset_tally_caches()
        desc = templ.replace('{w1}', w1).replace('{w2}', w2).replace('{w3}', w3)
        return post(_check(desc))

    def ob2(w1: str, w2: str) -> bool:
        """
        pre: 1 <= len(w1) <= WLEN and 1 <= len(w2) <= WLEN and all(c in WALPHA for c in w1 + w2)
        post: _
        """
        reset_tally_caches()
        desc = templ.replace('{w1}', w1).replace('{w2}', w2)
        return post(_check(desc))

    def ob1(w1: str) -> bool:
        """
        pre: 1 <= len(w1) <= WLEN + 1 and all(c in WALPHA for c in w1)
        post: _
        """
        reset_tally_caches()
        return post(_check(templ.replace('{w1}', w1)))
    return ob3 if '{w3}' in templ else (ob2 if '{w2}' in templ else ob1)


LONG_PIECES = ['.', '*', '(', 'x', chr(92)]
SEPS = [' ', '  ', '\t', '   ', ' \t ']


def long_token(first=True):
    """One word of the description is long: n filler letters, a piece with a regex metacharacter, a tail - n and the piece are picked by
    symbolic indices, so a length limit anywhere in the suggestion code (whatever its value up to 40) meets a metacharacter on it."""
    def ob(n: int, pi: int) -> bool:
        """
        pre: 0 <= n <= 40 and 0 <= pi < 5
        post: _
        """
        from engine.ob import pick
        reset_tally_caches()
        n, pi = pick(n, 41), pick(pi, 5)
        word = 'W' * n + LONG_PIECES[pi] + 'ACMECO' + LONG_PIECES[pi] + 'COM'
        desc = (word + ' PAYMENT REF') if first else ('ONLINE ' + word + ' REF')
        return post(_check(desc))
    return ob


def spacing(words):
    """The words of a description are separated by runs of blanks / tabs picked by symbolic indices (fixed-width bank exports)."""
    words = list(words)

    def ob(s1: int, s2: int, s3: int, lead: bool) -> bool:
        """
        pre: 0 <= s1 < 5 and 0 <= s2 < 5 and 0 <= s3 < 5
        post: _
        """
        from engine.ob import pick, flag
        reset_tally_caches()
        seps = [SEPS[pick(s1, 5)], SEPS[pick(s2, 5)], SEPS[pick(s3, 5)]]
        desc = words[0]
        for w, sp in zip(words[1:], seps):
            desc += sp + w
        if flag(lead):
            desc = ' ' + desc + ' '
        return post(_check(desc))
    return ob


PAIRS = [
    ('{w1} DES:PAYROLL ID:88 {w2}', '{w1} DES:TAX ID:88 {w2}'),
    ('{w1} SEATTLE WA', '{w1} #152 SEATTLE WA'),
    ('{w1} {w2} 123456 X', '{w1} {w2} 98101'),
    ('SQ *{w1} {w2}', '{w1} {w2}'),
]


def combined(i):
    """Two Unknown descriptions (often with the same suggested merchant name) : after BOTH suggested rules are appended to one
    rules file, each description is matched by a rule of that file - the Unknown list shrinks."""
    t1, t2 = PAIRS[i]

    def ob(w1: str, w2: str) -> bool:
        """
        pre: 1 <= len(w1) <= WLEN + 1 and 1 <= len(w2) <= WLEN and all(c in 'aB9' for c in w1 + w2)
        post: _
        """
        import ast as _ast
        from tally.commands.discover import suggest_pattern, suggest_merchant_name, suggest_merchants_rule
        from tally.merchant_engine import parse_merchants, MerchantParseError
        reset_tally_caches()
        w1 = _ast.literal_eval(repr(w1))
        w2 = _ast.literal_eval(repr(w2))
        descs = [t.replace('{w1}', w1).replace('{w2}', w2) for t in (t1, t2)]
        text = ''
        for d in descs:
            rule = suggest_merchants_rule(suggest_merchant_name(d), suggest_pattern(d))
            text += rule.replace('category: CATEGORY', 'category: Food').replace('subcategory: SUBCATEGORY', 'subcategory: Sub') + '\n\n'
        try:
            eng = parse_merchants(text)
        except MerchantParseError:
            return post(False)
        return post(all(eng.match({'description': d, 'amount': 1.0}).matched for d in descs))
    return ob


def obligations(tier, seed):
    q = tier == 'quick'
    obs = [Obligation(id='free', factory='free', params={'dlen': 2 if q else 3}, timeout=170 if q else 1500, group='free descriptions',
                      bounds=f'description 1..{2 if q else 3} chars over the alphabet {ALPHABET!r}')]
    for k in SKELETONS:
        three = '{w3}' in SKELETONS[k]
        wl, al = (1, 'aB9.*') if q else ((1, 'aB9.*') if three else (2, 'a9*'))
        obs.append(Obligation(id=f'skeleton-{k}', factory='skeleton', params={'key': k, 'wlen': wl, 'alpha': al}, timeout=170 if q else 1500, group='structured descriptions',
                              bounds=f'{SKELETONS[k]!r} with words of 1..{wl} chars over {" ".join(al)}' + ('' if q or three else '; plus the quick bounds (1 char over a B 9 . *)')))
        if not q and not three:
            obs.append(Obligation(id=f'skeleton-{k}-w1', factory='skeleton', params={'key': k, 'wlen': 1, 'alpha': 'aB9.*'}, timeout=300, group='structured descriptions',
                                  bounds=f'{SKELETONS[k]!r} with words of 1 char over a B 9 . *'))
    for first in (True, False):
        obs.append(Obligation(id='long-token-' + ('first' if first else 'second'), factory='long_token', params={'first': first}, timeout=170 if q else 900, group='structured descriptions',
                              bounds='the %s word = 0..40 filler letters + a piece from %r + ACMECO + piece + COM (symbolic indices)' % ('first' if first else 'second', LONG_PIECES)))
    for j, ws in enumerate([('WHOLE', 'FOODS', 'MARKET', '10234'), ('CHECKCARD', 'GREEN', 'LEAF', 'CAFE'), ('A.B', 'C*D', 'E', 'WA')][:2 if q else 3]):
        obs.append(Obligation(id=f'spacing-{j}', factory='spacing', params={'words': list(ws)}, timeout=170 if q else 900, group='structured descriptions',
                              bounds=f'words {ws} separated by blank / tab runs from {SEPS!r} (symbolic indices), with or without surrounding blanks'))
    for i in range(len(PAIRS)):
        obs.append(Obligation(id=f'combined-{i}', factory='combined', params={'i': i}, timeout=170 if q else 900, group='suggestions written to one file',
                              bounds=f'descriptions {PAIRS[i]!r} with words of 1-2 chars over a B 9; both suggested rules in one rules file'))
    return obs
