"""C15 - an interrupted or failing migration never loses rules or strands the budget."""
import itertools
import os
import tempfile
from engine.ob import REPO_SRC  # noqa: E402
from engine.ob import pick as _pick, flag as _flag  # noqa: F401
from engine.ob import need
from engine.ob import Obligation, post, reset_tally_caches

LEVEL = 'other'
EXPLANATION = ('The real migration code (_migrate_csv_to_rules through `tally up --migrate` and through `tally init`; migrate_v0_to_v1 / '
               'run_migrations) runs under CrossHair against a real scratch directory with every mutating file-system primitive '
               'interposed (engine/fsx.py).  The crash index (a BaseException raised before effect k; for a buffered write: nothing / half / '
               'all of it reached the disk), the fault index (OSError at effect k) and the initial state (settings present, .bak present, '
               'unreferenced merchants.rules present) are SYMBOLIC; the solver explores the product and returns the failing combination.  '
               'Post-state assertions: every byte of user content still exists somewhere; the budget classifies a probe transaction with '
               'the user\'s rules as before, or does so after re-running the same command once; it never loads zero rules while the '
               'rules still exist on disk.')
FUNCTIONS = ['cli._migrate_csv_to_rules', 'cli._check_merchant_migration', 'commands.init.cmd_init', 'cli.init_config', 'cli.migrate_v0_to_v1',
             'cli.run_migrations', 'cli.find_config_dir', 'config_loader.load_config', 'merchant_utils.get_all_rules', 'merchant_utils.normalize_merchant']
BOUNDS = 'crash / fault index 0..24 (the commands perform <= 20 effects), partial-write mode 0..2, 3 initial-state flags; one CSV rule file (3 rules)'
OUTSIDE = 'real disks, fsync ordering, concurrent writers, directory moves across file systems; more than one fault per run'
STUBS = ['engine/fsx.py interposes open(w/a), os.replace/rename/remove/mkdir/makedirs, shutil.move/copy* under the scratch root [POSIX semantics; a buffered write reaches the file at close as one effect]',
         'sys.stdout is redirected while the command runs']
TRUSTED = ['the interposition layer sees every mutating primitive the commands use (an audit hook records real writes under the scratch root that bypass it: harness error)']
ASSUMPTIONS = []

CSV = 'Pattern,Merchant,Category,Subcategory,Tags\nNETFLIX,Netflix,Subscriptions,Streaming,fun\nCOSTCO[amount>200],Costco Big,Shopping,Bulk,\nCOSTCO,Costco,Food,Grocery,\n'
SETTINGS = 'year: 2024\ndata_sources:\n  - name: Bank\n    file: data/bank.csv\n    format: "{date:%m/%d/%Y}, {description}, {amount}"\n'
OLD_RULES = '# an older, unreferenced file\n[Old]\nmatch: contains("OLDSTUFF")\ncategory: Old\n'
DATA = 'Date,Description,Amount\n01/05/2024,NETFLIX 123,9.99\n'
_POOL = {}
_COUNTER = itertools.count()


def pool():
    if 'root' not in _POOL:
        _POOL['root'] = tempfile.mkdtemp(prefix='verif_c15_')
    return _POOL['root']


def build(has_settings, has_bak, has_rules, layout='new'):
    """Fresh budget directory under the pool (deterministic name: no randomness inside the analysed function)."""
    root = os.path.join(pool(), 'b%06d' % next(_COUNTER))
    cfg = os.path.join(root, 'config')
    os.makedirs(cfg)
    os.makedirs(os.path.join(root, 'data'))
    with open(os.path.join(root, 'data', 'bank.csv'), 'w') as f:
        f.write(DATA)
    with open(os.path.join(cfg, 'merchant_categories.csv'), 'w') as f:
        f.write(CSV)
    if has_settings:
        with open(os.path.join(cfg, 'settings.yaml'), 'w') as f:
            f.write(SETTINGS)
    if has_bak:
        with open(os.path.join(cfg, 'merchant_categories.csv.bak'), 'w') as f:
            f.write('older backup\n')
    if has_rules:
        with open(os.path.join(cfg, 'merchants.rules'), 'w') as f:
            f.write(OLD_RULES)
    return root


def _quiet(fn, *a, **k):
    import contextlib
    import io
    buf = io.StringIO()
    with contextlib.redirect_stdout(buf), contextlib.redirect_stderr(buf):
        return fn(*a, **k)


def run_command(cmd, root, migrate=True):
    """The command as the user runs it (non-interactive)."""
    import argparse
    from tally import cli
    from tally.config_loader import load_config
    cfgdir = os.path.join(root, 'config')
    if cmd == 'up':
        need(hasattr(cli, '_check_merchant_migration'), 'cli._check_merchant_migration is gone: the migration step of `tally up` cannot be driven on its own')
        cfg = load_config(cfgdir)
        return _quiet(cli._check_merchant_migration, cfg, cfgdir, True, migrate)
    if cmd == 'init':
        from tally.commands import init as initmod
        cwd = os.getcwd()
        os.chdir(root)
        try:
            return _quiet(initmod.cmd_init, argparse.Namespace(dir=root))
        finally:
            os.chdir(cwd)
    raise KeyError(cmd)


def classify(root):
    """What plain `tally up` (no --migrate) classifies the probe as; None if the budget cannot be loaded."""
    from tally import cli, merchant_utils
    from tally.config_loader import load_config
    reset_tally_caches()
    need(hasattr(cli, '_check_merchant_migration'), 'cli._check_merchant_migration is gone: what plain `tally up` loads cannot be obtained')
    try:
        cfgdir = os.path.join(root, 'config')
        cfg = load_config(cfgdir)
        rules = _quiet(cli._check_merchant_migration, cfg, cfgdir, True, False)
        a = merchant_utils.normalize_merchant('NETFLIX 123', rules, amount=9.99)
        b = merchant_utils.normalize_merchant('COSTCO WHSE', rules, amount=250.0)
        return (a[1], b[1])
    except (SystemExit, Exception):
        return None


EXPECTED = ('Subscriptions', 'Shopping')


def content_preserved(root, has_settings, has_bak, has_rules):
    from engine import fsx
    snap = fsx.snapshot(root)
    blobs = list(snap.values())
    ok = any(CSV.encode() == b for b in blobs)                                   # the CSV rules survive somewhere (csv or .bak)
    if has_settings:
        st = snap.get('config/settings.yaml')
        ok = ok and st is not None and st.startswith(SETTINGS.encode())          # settings may only gain appended lines
    ok = ok and snap.get('data/bank.csv') == DATA.encode()
    return ok


def migration(cmd, mode, state=None):
    """mode: 'crash' | 'fault'; state: None (symbolic initial state) or [has_settings, has_bak, has_rules]"""
    pool()

    def ob(k: int, partial: int, has_settings: bool, has_bak: bool, has_rules: bool) -> bool:
        """
        pre: 0 <= k <= 24 and 0 <= partial <= 2
        post: _
        """
        from engine import fsx
        k, partial = int(k), int(partial)      # stay symbolic: every index past the last effect is ONE path
        if state is not None:
            has_settings, has_bak, has_rules = state
        if mode == 'fault':
            partial = 0
        if cmd == 'up':
            has_settings = True
        if not has_settings:
            has_rules = False       # without settings an existing merchants.rules IS the user's rules file: nothing to migrate
        has_settings, has_bak, has_rules = bool(has_settings), bool(has_bak), bool(has_rules)
        root = build(has_settings, has_bak, has_rules)
        reset_tally_caches()
        before = classify(root) if has_settings else EXPECTED
        crashed = False
        with fsx.Interpose(root, crash_at=k if mode == 'crash' else None, fault_at=k if mode == 'fault' else None, partial=partial) as ip:
            try:
                run_command(cmd, root)
            except fsx.Crash:
                crashed = True
            except SystemExit:
                pass
            except OSError:
                pass            # the command failed loudly with the injected I/O error: allowed, what matters is the state it leaves
        ok = before == EXPECTED
        ok = ok and content_preserved(root, has_settings, has_bak, has_rules)
        now = classify(root) if os.path.exists(os.path.join(root, 'config', 'settings.yaml')) else None
        if now != EXPECTED:
            # ... or does so after simply re-running the same command
            try:
                run_command(cmd, root)
            except SystemExit:
                pass
            now = classify(root)
            ok = ok and content_preserved(root, has_settings, has_bak, has_rules)
        ok = ok and now == EXPECTED
        import shutil
        shutil.rmtree(root, ignore_errors=True)
        return post(ok)
    return ob


def layout_migration(k, mode='crash', aspect='all'):
    """The folder-layout migration interrupted before effect k, then the same command again (the way `tally update` runs it):
    the data file the settings point at must be where the budget is found."""
    class Q:
        def query(self):
            ok, why = self._run()
            r = {'solver_queries': 0, 'solver_time_s': 0.0, 'paths': 1, 'extra': {'decided_by': 'direct run per crash point'}}
            r.update({'status': 'CONFIRMED', 'message': why} if ok else {'status': 'REFUTED', 'args': {}, 'message': why})
            return r

        def _run(self):
            import sys
            sys.path.insert(0, REPO_SRC)
            from engine import fsx
            from tally import cli
            root = build(True, False, False)
            cwd = os.getcwd()
            os.chdir(root)
            try:
                with fsx.Interpose(root, **({'crash_at': k} if mode == 'crash' else {'fault_at': k})) as ip:
                    try:
                        _quiet(cli.run_migrations, os.path.join(root, 'config'), True)
                    except fsx.Crash:
                        pass
                    except Exception:
                        pass
                n_effects = ip.n
                cd = cli.find_config_dir()
                if cd:
                    try:
                        _quiet(cli.run_migrations, cd, True)
                    except Exception:
                        pass
                cd = cli.find_config_dir()
                data_ok = cd is not None and os.path.exists(os.path.join(os.path.dirname(cd), 'data', 'bank.csv'))
                rules_ok = cd is not None and os.path.exists(os.path.join(cd, 'merchant_categories.csv')) and os.path.exists(os.path.join(cd, 'settings.yaml'))
            finally:
                os.chdir(cwd)
                import shutil
                shutil.rmtree(root, ignore_errors=True)
            if aspect == 'data':
                rules_ok = True          # the listed finding is about the DATA files only ...
            if aspect == 'rules':
                data_ok = True           # ... at the same point the rules and settings must still be found: a different failure is a violation
            if not (data_ok and rules_ok):
                return False, 'layout migration %s effect %d (of %d): after re-running, %s' % (
                    'interrupted before' if mode == 'crash' else 'got an I/O error at', k, n_effects, 'the configured data file is not where the settings point' if not data_ok else 'the rules / settings are not in the config directory that is found')
            return True, 'resumable at crash point %d' % k

        def __call__(self, **kw):
            return self._run()[0]
    return Q()


def layout_symbolic(mode):
    """The folder-layout migration with a SYMBOLIC crash / fault index (every index past the last effect is one path), the listed
    point excluded by precondition (it has its own obligations): after re-running, the settings, the rules and the data file are
    where tally looks for them."""
    pool()

    def ob(k: int) -> bool:
        """
        pre: 0 <= k <= 40 and k != 2
        post: _
        """
        from engine import fsx
        from tally import cli
        k = int(k)
        root = build(True, False, False)
        reset_tally_caches()
        cwd = os.getcwd()
        os.chdir(root)
        try:
            with fsx.Interpose(root, **({'crash_at': k} if mode == 'crash' else {'fault_at': k})):
                try:
                    _quiet(cli.run_migrations, os.path.join(root, 'config'), True)
                except fsx.Crash:
                    pass
                except Exception:
                    pass
            cd = cli.find_config_dir()
            if cd:
                try:
                    _quiet(cli.run_migrations, cd, True)
                except Exception:
                    pass
            cd = cli.find_config_dir()
            ok = cd is not None and os.path.exists(os.path.join(os.path.dirname(cd), 'data', 'bank.csv'))
            ok = ok and os.path.exists(os.path.join(cd, 'merchant_categories.csv')) and os.path.exists(os.path.join(cd, 'settings.yaml'))
        finally:
            os.chdir(cwd)
            import shutil
            shutil.rmtree(root, ignore_errors=True)
        return post(ok)
    return ob


KNOWN_LAYOUT_POINTS = (2,)      # crash points at which the pinned code is NOT resumable (known finding)
N_LAYOUT_EFFECTS = 5


def obligations(tier, seed):
    q = tier == 'quick'
    obs = []
    for mode in ['crash', 'fault']:
        obs.append(Obligation(id=f'up-{mode}', factory='migration', params={'cmd': 'up', 'mode': mode}, timeout=170 if q else 900,
                              group='CSV -> .rules migration', bounds=f'`tally up --migrate`: symbolic {mode} index 0..24' + (', partial-write mode 0..2' if mode == 'crash' else '') + ', symbolic initial state (.bak / unreferenced merchants.rules present)'))
        for st in ([False, False, False], [False, True, False], [True, False, False], [True, True, True], [True, False, True]):
            obs.append(Obligation(id=f'init-{mode}-' + ''.join(str(int(x)) for x in st), factory='migration', params={'cmd': 'init', 'mode': mode, 'state': st}, timeout=170 if q else 900,
                                  group='CSV -> .rules migration', bounds=f'`tally init` on a folder with settings={st[0]}, .bak={st[1]}, merchants.rules={st[2]}: symbolic {mode} index 0..24' + (', partial-write mode 0..2' if mode == 'crash' else '')))
    for mode in ('crash', 'fault'):
        obs.append(Obligation(id=f'layout-symbolic-{mode}', factory='layout_symbolic', params={'mode': mode}, timeout=170 if q else 900, group='folder-layout migration',
                              bounds=f'run_migrations on a legacy-layout budget: symbolic {mode} index 0..40 except the listed point 2, then the same command again'))
    for mode, kmax in (('crash', 24), ('fault', 16)):
        for k in range(0, 40 if tier != 'quick' else kmax):
            known = k in KNOWN_LAYOUT_POINTS
            tag = 'layout-migration-' + ('fault-' if mode == 'fault' else '')
            what = (f'crash before effect {k} of run_migrations (the pinned code performs {N_LAYOUT_EFFECTS}; later indices only exist if the code does more), then re-run' if mode == 'crash'
                    else f'OSError at effect {k} of run_migrations (whatever error handling the code has runs), then re-run')
            for aspect in (['data', 'rules'] if known else ['all']):
                kn = known and aspect == 'data'
                obs.append(Obligation(id=('known-' if kn else '') + tag + f'k{k:02d}' + ('' if aspect == 'all' else '-' + aspect), factory='layout_migration',
                                      params={'k': k, 'mode': mode, 'aspect': aspect}, engine='smt', twin=False, timeout=120,
                                      kind='known' if kn else 'main', known_key='C15:layout-migration-not-resumable' if kn else None, group='folder-layout migration',
                                      bounds=what + {'all': '', 'data': ' (data files where the settings point)', 'rules': ' (rules and settings found)'}[aspect]))
    return obs
