"""Shared selection-logic harness (truth-vector abstraction) for C01, C02 and C09.

Rule i's whole match expression is the text `"@Mi"`; the tree tally's own parser caches for that
text gets its body replaced by a Constant holding the symbolic truth value b_i, so one symbolic run
of the real MerchantEngine.match covers every transaction x every way the rules can overlap.
"""
from engine.ob import post, reset_tally_caches, const_true_false

MAXN = 5


def build_rules(n, cats, subs, prios=None, tagsets=None, exprs=None):
    from tally.merchant_engine import MerchantRule
    rules = []
    for i in range(n):
        rules.append(MerchantRule(
            name=f'R{i}',
            match_expr=(exprs[i] if exprs else f'"@M{i}"'),
            category=(f'C{i}' if cats[i] else ''),
            subcategory=(f'S{i}' if subs[i] else ''),
            merchant=f'M{i}',
            tags=set(tagsets[i]) if tagsets else {f't{i}'},
            priority=(prios[i] if prios else 50),
        ))
    return rules


def engine_for(rules, mode):
    from tally.merchant_engine import MerchantEngine
    e = MerchantEngine(match_mode=mode)
    e.rules = list(rules)
    return e


def inject_truth(rules, bs):
    for r, b in zip(rules, bs):
        const_true_false(r.match_expr, b)


TXN = {'description': 'PROBE', 'amount': 12.5, 'field': {'k': 'v'}, 'source': 'Src'}


def first_match_oracle(rules, bs):
    """Reference from the property text: first rule in order that matches and carries a category."""
    for r, b in zip(rules, bs):
        if b and r.category != '':
            return (True, r.merchant, r.category, r.subcategory, r)
    return (False, '', '', '', None)


def tags_oracle(rules, bs):
    out = set()
    for r, b in zip(rules, bs):
        if b:
            for t in r.tags:
                t = t.strip().lower()
                if t:
                    out.add(t)
    return out


# --------------------------------------------------------------------------- specificity oracle
PATTERN_FUNCS = {'contains', 'regex', 'normalized', 'startswith', 'fuzzy', 'anyof'}
CONSTRAINT_NAMES = {'amount', 'date', 'month', 'year', 'day', 'weekday', 'source'}


def spec_key_from_ast(expr_src):
    """(pattern calls, constraint kinds, total literal length) read off the Python AST of the
    expression text - independent of tally's substring counting."""
    import ast
    tree = ast.parse(expr_src, mode='eval')
    pc = 0
    kinds = set()
    plen = 0
    for node in ast.walk(tree):
        if isinstance(node, ast.Call) and isinstance(node.func, ast.Name) and node.func.id.lower() in PATTERN_FUNCS:
            pc += 1
        if isinstance(node, ast.Name) and node.id.lower() in CONSTRAINT_NAMES:
            kinds.add(node.id.lower())
        if isinstance(node, ast.Attribute) and isinstance(node.value, ast.Name) and node.value.id.lower() == 'field':
            kinds.add('field.')
        if isinstance(node, ast.Constant) and isinstance(node.value, str):
            plen += len(node.value)
    return (pc, len(kinds), plen)


# canonically spelled expressions (no keyword inside a literal or identifier, no blanks before "(")
SPEC_EXPRS = [
    'contains("AB")',
    'contains("CD")',
    'contains("AB") and contains("C")',
    'contains("ABC")',
    'contains("EF") and amount > 5',
    'regex("A.B") and month == 12 and amount > 5',
    'startswith("ABCD")',
    'source == "X"',
    'anyof("A", "B")',
    'normalized("GH") and source == "Q"',
    'amount > 7',
    'contains("IJ") and field.k == "v"',
]


def most_specific_oracle(rules, bs, keys, prios=None):
    """keys[i] = (pc, kinds, plen) of rule i; prios[i] = the priority WRITTEN in the file (default 50), when the rules
    come from the real parser.  Returns (category rule, subcategory rule)."""
    best = None
    best_key = None
    sbest = None
    sbest_key = None
    for i, (r, b, k) in enumerate(zip(rules, bs, keys)):
        if not b:
            continue
        if r.category == '':
            continue            # C02: a rule without category never categorizes
        key = ((r.priority if prios is None else prios[i]),) + tuple(k)
        if best is None or key > best_key:
            best, best_key = r, key
        if r.subcategory != '' and (sbest is None or key > sbest_key):
            sbest, sbest_key = r, key
    return best, sbest
