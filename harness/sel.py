"""Shared selection-logic harness (truth-vector abstraction) for C01, C02 and C09.

Rule i's whole match expression is the text `"@Mi"`; the tree tally's own parser caches for that
text gets its body replaced by a Constant holding the symbolic truth value b_i, so one symbolic run
of the real MerchantEngine.match covers every transaction x every way the rules can overlap.
"""
from engine.ob import post, reset_tally_caches, const_true_false

MAXN = 5


def build_rules(n, cats, subs, prios=None, tagsets=None, exprs=None):
    from tally.merchant_engine import MerchantRule
    rules = []
    for i in range(n):
        rules.append(MerchantRule(
            name=f'R{i}',
            match_expr=(exprs[i] if exprs else f'"@M{i}"'),
            category=(f'C{i}' if cats[i] else ''),
            subcategory=(f'S{i}' if subs[i] else ''),
            merchant=f'M{i}',
            tags=set(tagsets[i]) if tagsets else {f't{i}'},
            priority=(prios[i] if prios else 50),
        ))
    return rules


def engine_for(rules, mode):
    from tally.merchant_engine import MerchantEngine
    e = MerchantEngine(match_mode=mode)
    e.rules = list(rules)
    return e


def inject_truth(rules, bs):
    for r, b in zip(rules, bs):
        const_true_false(r.match_expr, b)


TXN = {'description': 'PROBE', 'amount': 12.5, 'field': {'k': 'v'}, 'source': 'Src'}


def first_match_oracle(rules, bs):
    """Reference from the property text: first rule in order that matches and carries a category."""
    for r, b in zip(rules, bs):
        if b and r.category != '':
            return (True, r.merchant, r.category, r.subcategory, r)
    return (False, '', '', '', None)


def tags_oracle(rules, bs):
    out = set()
    for r, b in zip(rules, bs):
        if b:
            for t in r.tags:
                t = t.strip().lower()
                if t:
                    out.add(t)
    return out
