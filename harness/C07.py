"""C07 - classification depends only on current rules and the transaction, not history."""
import itertools
import os
import random
import tempfile
from engine.ob import REPO_SRC  # noqa: E402
from engine.ob import Obligation, post, reset_tally_caches, pick, flag

LEVEL = 'other'
EXPLANATION = ('Bounded symbolic execution (CrossHair + z3) of operation sequences {load A.rules | load B.rules | load C.csv | load '
               'nothing | classify t1 | evaluate an expression} followed by "load X; classify t" with SYMBOLIC transactions, compared '
               'with the same final load+classify performed after wiping the three process-wide caches.  The rule files share names '
               'and patterns but disagree on categories, variables, regexes (look-alike escapes) and walrus/let names, so a stale or '
               'mis-keyed cache, or state leaking between evaluations, is observable.  Rules, engine, rows and transaction are compared '
               'before/after each classify.')
FUNCTIONS = ['merchant_utils.get_all_rules', 'merchant_utils.normalize_merchant', 'merchant_engine.MerchantEngine.parse/match',
             'expr_parser.parse_expression (_expression_cache)', 'expr_parser.TransactionContext._fn_regex (_regex_cache)', 'expr_parser.TransactionEvaluator']
BOUNDS = 'sequences of <= 3 operations (4 thorough) from an enumerated family; description from 5 fixtures, memo from 3, amount from 3 threshold regions (symbolic indices: regexes on symbolic text and hashing of symbolic amounts made the sequences too slow; here the solver covers the product of histories x fixtures, it does not reason about text)'
OUTSIDE = 'sequences longer than the bound; rule files other than the three fixtures'
STUBS = []
TRUSTED = ['rule files are real temporary files written before the analysis starts']
ASSUMPTIONS = []

A_RULES = '''
field.description = regex_replace(field.description, "^q$", "A")
is_pay = contains(field.memo, "P")
is_q = description == "zz"

[Bare]
match: is_q
category: Bare

[Salary]
match: is_pay and amount > 10
category: Income
tags: pay

[Walrus]
match: (code := extract("R(\\\\d)")) != "" and code == "7"
category: Ref7

[Digit]
match: regex("X\\\\d")
category: Digit

[Rest]
match: contains("A")
category: RestA
tags: a
'''

B_RULES = '''
field.memo = regex_replace(field.memo, "^x$", "77")
field.memo = uppercase(field.memo)

[Code]
let: code = field.memo
match: code == "77"
category: Dept
tags: {code}

[NonDigit]
match: regex("X\\\\D")
category: NonDigit

[RxName]
match: regex("is_q")
category: RxName

[Rest]
match: contains("A")
category: RestB
subcategory: SubB
'''

# most_specific mode: same rules, priorities swapped between the two files
MA_RULES = '''
[P]
match: contains("A")
category: PWins
priority: 90

[Q]
match: contains("A")
category: QLoses
subcategory: SubQ
priority: 10
'''
MB_RULES = MA_RULES.replace('priority: 90', 'priority: 1').replace('priority: 10', 'priority: 90').replace('PWins', 'PLoses').replace('QLoses', 'QWins')

# rules over a supplemental source: let / match / field / tag expressions that hand out whole rows, lists of rows and row values
D_RULES = '''
[Ordered]
let: hits = [r for r in orders if r.amount == amount]
match: len(hits) > 0 and contains("A")
category: Ordered
field: order = hits[0]
field: every = hits
field: src = orders
field: when = hits[0].date
tags: {hits[0].item}

[OrderDay]
match: len([r for r in orders if r.date == "2024-02-03"]) > 1 and contains("X")
category: OrderDay
tags: {[r.item for r in orders if r.amount > amount][0]}

[Rest]
match: contains("A")
category: RestD
'''


def _rows():
    from datetime import date
    return {'orders': [{'amount': 3, 'item': 'cable', 'date': date(2024, 2, 3), 'qty': 2}, {'amount': 50, 'item': 'desk', 'date': date(2024, 2, 3), 'qty': 1},
                       {'amount': 7, 'item': 'pen', 'date': date(2024, 3, 1), 'qty': 5}]}


C_CSV = 'Pattern,Merchant,Category,Subcategory,Tags\\nA,MerchC,CatC,SubC,c\\nX\\\\d[amount>5],XD,CatXD,,\\n'

EXPRS = ['regex("X\\\\d")', 'regex("X\\\\D")', 'regex("x\\\\d")', '(code := "7") == "7"', 'contains("A") and amount > 3', 'CONTAINS("a") and AMOUNT > 3']

_FILES = {}
DESCS = ['A', 'X1', 'Xy', 'R7', 'q', 'is_q']
MEMOS = ['P', '77', 'x', None]      # None = the row has no memo column at all


def files():
    if not _FILES and os.environ.get('VERIF_C07_FILES'):
        import json
        _FILES.update(json.loads(os.environ['VERIF_C07_FILES']))
    if not _FILES:
        d = tempfile.mkdtemp(prefix='verif_c07_')
        for name, text in (('A.rules', A_RULES), ('B.rules', B_RULES), ('C.csv', C_CSV), ('MA.rules', MA_RULES), ('MB.rules', MB_RULES), ('D.rules', D_RULES)):
            p = os.path.join(d, name)
            with open(p, 'w') as f:
                f.write(text.replace('\\\\', '\\').replace('\\n', '\n') if name == 'C.csv' else text.replace('\\\\', '\\'))
            _FILES[name.split('.')[0]] = p
        _FILES['N'] = None
    return _FILES


REGION_REPR = [3, 7, 50]      # amount <= 5, 5 < amount <= 10, amount > 10  (the thresholds the fixtures use)


def _region(amount):
    if amount <= 5:
        return 0
    if amount <= 10:
        return 1
    return 2


def _table_path():
    import hashlib
    h = hashlib.sha1()
    for root, _, fns in os.walk(REPO_SRC + '/tally'):
        for fn in sorted(fns):
            if fn.endswith('.py'):
                with open(os.path.join(root, fn), 'rb') as f:
                    h.update(f.read())
    h.update((A_RULES + B_RULES + C_CSV + MA_RULES + MB_RULES + D_RULES + repr(_rows()) + repr(DESCS) + repr(MEMOS)).encode())
    d = os.path.join(tempfile.gettempdir(), 'verif_c07_table')
    os.makedirs(d, exist_ok=True)
    return os.path.join(d, h.hexdigest()[:16] + '.json')


_ONE = '''
import sys, json, os
sys.path.insert(0, os.environ["VERIF_ROOT"])
from harness import C07
which, di, mi, ri = sys.argv[1], int(sys.argv[2]), int(sys.argv[3]), int(sys.argv[4])
r = C07._digest(C07._classify(C07._load(which), C07.DESCS[di], C07.REGION_REPR[ri], C07.MEMOS[mi], rows=(C07._rows() if which == 'D' else None)))
print(json.dumps(r))
'''


def prepare(tier, seed):
    """Reference table: every (file, description, memo, amount region) classified in its OWN fresh interpreter."""
    import json
    import subprocess
    import sys
    from concurrent.futures import ThreadPoolExecutor
    path = _table_path()
    if os.path.exists(path):
        return path
    files()
    keys = [(w, di, mi, ri) for w in ['A', 'B', 'C', 'N', 'MA', 'MB'] for di in range(len(DESCS)) for mi in range(len(MEMOS)) for ri in range(3)]
    keys += [('D', di, 0, ri) for di in range(len(DESCS)) for ri in range(3)]

    def one(k):
        env = dict(os.environ)
        env['VERIF_C07_FILES'] = json.dumps(_FILES)
        env['VERIF_ROOT'] = os.path.dirname(os.path.dirname(os.path.abspath(__file__)))
        p = subprocess.run([sys.executable, '-c', _ONE] + [str(x) for x in k], capture_output=True, text=True, env=env, timeout=120)
        if p.returncode != 0:
            raise RuntimeError('fresh-process reference failed: ' + p.stderr[-400:])
        return json.loads(p.stdout.strip().splitlines()[-1])
    with ThreadPoolExecutor(max_workers=16) as ex:
        vals = list(ex.map(one, keys))
    table = {'%s-%d-%d-%d' % k: v for k, v in zip(keys, vals)}
    with open(path + '.tmp', 'w') as f:
        json.dump(table, f)
    os.replace(path + '.tmp', path)
    return path


def _table():
    import json
    path = prepare(None, 0)
    with open(path) as f:
        return json.load(f)


def _classify(rules_ctx, desc, amount, memo, rows=None):
    from tally import merchant_utils
    rules, transforms = rules_ctx
    kw = {'data_sources': rows} if rows is not None else {}
    return merchant_utils.normalize_merchant(desc, rules, amount=amount, field=({'memo': memo} if memo is not None else {}), data_source='S', transforms=transforms, **kw)


def _load(which, mode='first_match'):
    from tally import merchant_utils
    if which in ('SA', 'SB'):
        # the SAME path, rewritten with the content of A.rules / B.rules before it is loaded
        fs = files()
        spath = os.path.join(os.path.dirname(fs['A']), 'S.rules')
        with open(fs[which[1]]) as f:
            text = f.read()
        with open(spath, 'w') as f:
            f.write(text)
        # ... in the order the commands use: transforms first, then the rules
        transforms = merchant_utils.get_transforms(spath, match_mode=mode)
        rules = merchant_utils.get_all_rules(spath, match_mode=mode)
        return (rules, transforms)
    path = files()[which]
    if which in ('MA', 'MB'):
        mode = 'most_specific'
    rules = merchant_utils.get_all_rules(path, match_mode=mode)
    transforms = merchant_utils.get_transforms(path, match_mode=mode) if path else []
    return (rules, transforms)


def _digest(r):
    m, c, s, info = r
    tags = sorted(info['tags']) if info else []
    return (m, c, s, tags)


def sequence(ops, final):
    """ops: list of op codes ('A','B','C','N' = load; 'c' = classify t1; 'e0'..'e5' = evaluate expression k).
    final: which file is loaded last before classifying t."""
    ops = list(ops)
    fs = files()
    table = _table()

    def ob(di: int, ri: int, mi: int, m1none: bool) -> bool:
        """
        pre: 0 <= di < 6 and 0 <= mi < 4 and 0 <= ri < 3
        post: _
        """
        import copy
        di, ri, mi = pick(di, 6), pick(ri, 3), pick(mi, 4)
        amount = REGION_REPR[ri]
        desc = DESCS[di]
        memo = MEMOS[mi]
        memo1 = None if flag(m1none) else 'P'            # t1 = t except for its memo (P, or no memo column)
        from tally import expr_parser, merchant_utils
        reset_tally_caches()
        cur = ([], [])
        ok = True
        for op in ops:
            if op in ('A', 'B', 'C', 'N', 'SA', 'SB', 'MA', 'MB'):
                cur = _load(op)
            elif op == 'c':
                before_rules = [tuple(str(x) for x in r[:4]) for r in cur[0]]
                eng = getattr(merchant_utils, '_cached_engine', None)
                before_eng = [(r.name, r.match_expr, r.category, sorted(r.tags)) for r in eng.rules] if eng is not None else None
                _classify(cur, desc, amount, memo1)        # same transaction as the final one except for the memo field
                ok = ok and [tuple(str(x) for x in r[:4]) for r in cur[0]] == before_rules
                if eng is not None:
                    ok = ok and [(r.name, r.match_expr, r.category, sorted(r.tags)) for r in eng.rules] == before_eng
            else:
                k = int(op[1:])
                try:
                    expr_parser.evaluate_transaction(EXPRS[k], {'description': desc, 'amount': amount, 'field': {'memo': memo1}})
                except expr_parser.ExpressionError:
                    pass
        last = 'N'
        for op in ops:
            if op in ('A', 'B', 'C', 'N', 'SA', 'SB', 'MA', 'MB'):
                last = op
        fin = last if final == '=' else final
        fin = fin[1] if fin in ('SA', 'SB') else fin        # same content => same expected classification
        if final != '=':
            cur = _load(final)
        got = _digest(_classify(cur, desc, amount, memo))
        # the same operation in a genuinely fresh interpreter (reference table built before the analysis starts,
        # one new process per entry; the amount only matters through the fixtures' thresholds 5 and 10)
        ref = table['%s-%d-%d-%d' % (fin, di, mi, ri)]
        ref = (ref[0], ref[1], ref[2], list(ref[3]))
        return post(ok and got == ref)
    return ob


def _rows_snapshot(rows):
    return [(name, [[(k, type(r[k]), r[k]) for k in sorted(r)] for r in lst]) for name, lst in sorted(rows.items())]


def supplemental(n_before):
    """Rules over a supplemental source (D.rules): n_before classifications whose let / field / tag expressions hand out whole rows,
    lists of rows and the source itself, then classify t.  t's result is what a fresh interpreter gives with fresh rows, and the
    rows are - item for item, type for type - what they were."""
    table = _table()
    files()

    def ob(di: int, ri: int, d1: int, r1: int, r2: int) -> bool:
        """
        pre: 0 <= di < 3 and 0 <= ri < 3 and 0 <= d1 < 2 and 0 <= r1 < 3 and 0 <= r2 < 3
        post: _
        """
        di, ri, r1 = (0, 1, 3)[pick(di, 3)], pick(ri, 3), pick(r1, 3)
        if n_before == 1:
            d1, r2 = pick(d1, 2), 0                      # only what is used is picked: every pick multiplies the paths
        else:
            d1, r2 = 0, pick(r2, 3)
        from tally import merchant_utils
        reset_tally_caches()
        cur = _load('D')
        rows = _rows()
        snap = _rows_snapshot(rows)
        kept = [list(lst) for lst in rows.values()]
        before_rules = [tuple(str(x) for x in r[:4]) for r in cur[0]]
        ok = True
        hist = [(DESCS[d1], REGION_REPR[r1]), ('A', REGION_REPR[r2])][:n_before]
        for (desc1, amount1) in hist:
            got1 = _digest(_classify(cur, desc1, amount1, 'P', rows=rows))
            ref1 = table['D-%d-0-%d' % (DESCS.index(desc1), REGION_REPR.index(amount1))]
            ok = ok and got1 == (ref1[0], ref1[1], ref1[2], list(ref1[3]))
        got = _digest(_classify(cur, DESCS[di], REGION_REPR[ri], 'P', rows=rows))
        ref = table['D-%d-0-%d' % (di, ri)]
        ok = ok and got == (ref[0], ref[1], ref[2], list(ref[3]))
        ok = ok and _rows_snapshot(rows) == snap and all(len(a) == len(b) and all(x is y for x, y in zip(a, b)) for a, b in zip(kept, rows.values()))
        ok = ok and [tuple(str(x) for x in r[:4]) for r in cur[0]] == before_rules
        return post(ok)
    return ob


def fixtures_sane():
    """Vacuity guard for the fixtures themselves: the files disagree where they are meant to (concrete run)."""
    class Q:
        def query(self):
            ok = self()
            r = {'solver_queries': 0, 'solver_time_s': 0.0, 'paths': 9}
            if ok:
                r.update({'status': 'CONFIRMED', 'message': 'fixtures classify the nine probes as written'})
            else:
                r.update({'status': 'REFUTED', 'args': {}, 'message': 'a sequence of nine classifications in one process does not give the documented results'})
            return r

        def __call__(self, **kw):
            import sys
            sys.path.insert(0, REPO_SRC)
            reset_tally_caches()
            a = _digest(_classify(_load('A'), 'A', 5, 'zz'))
            b = _digest(_classify(_load('B'), 'A', 5, 'zz'))
            c = _digest(_classify(_load('C'), 'A', 5, 'zz'))
            n = _digest(_classify(_load('N'), 'A', 5, 'zz'))
            d1 = _digest(_classify(_load('A'), 'X1', 5, 'zz'))
            d2 = _digest(_classify(_load('B'), 'Xy', 5, 'zz'))
            w = _digest(_classify(_load('A'), 'R7', 5, 'zz'))
            k = _digest(_classify(_load('B'), 'q', 5, '77'))
            p = _digest(_classify(_load('A'), 'q', 50, 'P'))
            return (a[1], b[1], c[1], n[1], d1[1], d2[1], w[1], k[1], p[1]) == ('RestA', 'RestB', 'CatC', 'Unknown', 'Digit', 'NonDigit', 'Ref7', 'Dept', 'Income')
    return Q()


def sequences(tier, seed):
    rng = random.Random(700 + seed)
    loads = ['A', 'B', 'C', 'N']
    other = ['c'] + [f'e{k}' for k in range(len(EXPRS))]
    hand = [(['MA', 'c', 'MB'], '='), (['MB', 'c', 'MA', 'c'], 'MB'), (['MA', 'c', 'MB', 'c', 'MA'], '='), (['SA', 'c', 'SB'], '='), (['SA', 'SB', 'c'], '='), (['SB', 'SA'], '='), (['SA', 'c'], 'SB'),
            (['A', 'c'], '='), (['A', 'c', 'c'], '='), (['B', 'c'], '='), (['C', 'c'], '='), (['A', 'e3', 'c'], '='), (['B', 'e3'], '='),
            (['A', 'c'], 'A'), (['A', 'c', 'c'], 'A'), (['A', 'c'], 'B'), (['A'], 'C'), (['A'], 'N'), (['B', 'c'], 'A'), (['A', 'c', 'B'], 'B'),
            (['e0'], 'B'), (['e1'], 'A'), (['e2', 'e0'], 'A'), (['e3'], 'B'), (['e3', 'A', 'c'], 'B'), (['C', 'c'], 'A'), (['B', 'A'], 'C'),
            (['e5', 'e4'], 'A'), (['A', 'B', 'c'], 'A'), (['A', 'c', 'N'], 'B'), (['B', 'c', 'c'], 'B')]
    out = list(hand)
    L = 3 if tier == 'quick' else 4
    k = 6 if tier == 'quick' else 150
    while len(out) < len(hand) + k:
        n = rng.randint(1, L)
        ops = [rng.choice(loads + other + ['c']) for _ in range(n)]
        out.append((ops, rng.choice((['A', 'B', 'N', '='] if tier == 'quick' else loads + ['=']))))
    seen, uniq = set(), []
    for ops, fin in out:
        key = (tuple(ops), fin)
        if key not in seen:
            seen.add(key)
            uniq.append((ops, fin))
    return uniq


def obligations(tier, seed):
    q = tier == 'quick'
    obs = [Obligation(id='fixtures-sane', factory='fixtures_sane', engine='smt', twin=False, timeout=60, group='fixtures',
                      bounds='the three rule files classify nine probe transactions differently as intended')]
    for n in (1, 2):
        obs.append(Obligation(id=f'supplemental-{n}', factory='supplemental', params={'n_before': n}, timeout=170 if q else 900, group='supplemental rows', replay_repeat=3,
                              bounds=f'D.rules over 3 supplemental rows (dates, numbers, text): {n} earlier classification(s) with symbolic fixture indices, then classify t (3 descriptions x 3 amounts, symbolic indices); rows compared item for item and type for type'))
    for i, (ops, fin) in enumerate(sequences(tier, seed)):
        obs.append(Obligation(id=f'seq-{i:03d}-' + '-'.join(ops) + '-then-' + fin, factory='sequence', params={'ops': ops, 'final': fin},
                              timeout=200 if q else 900, group='history independence', replay_repeat=40,
                              bounds=f'history {ops}, then {'classify t on the rules already loaded' if fin == '=' else 'load ' + fin + ' and classify t'}; description one of 6 fixtures and memo one of 4 (incl. no memo column) (symbolic index), amount one of 3 region representatives (symbolic indices; t1 = t with memo P)'))
    return obs
