"""C20 - commands never alter or overwrite the user's statements, rules or settings."""
import itertools
import os
import tempfile
from engine.ob import REPO_SRC  # noqa: E402
from engine.ob import pick as _pick, flag as _flag  # noqa: F401
from engine.ob import Obligation, post, reset_tally_caches

LEVEL = 'other'
EXPLANATION = ('The real cmd_run / cmd_explain / cmd_discover / cmd_diag / cmd_inspect / cmd_init run under CrossHair against a real scratch '
               'budget directory whose initial state (which config files exist, which lines settings.yaml has, legacy CSV present or not, '
               'old or new layout, output folder present) and whose arguments (format, --migrate, --output, embedded html) are SYMBOLIC; '
               'sequences of two commands are selected by symbolic indices.  The assertion is a frame condition over the byte contents of '
               'the tree before and after: analysis commands change nothing outside the output location; init keeps every existing file '
               '(settings may only gain appended lines; a CSV with rules is migrated once and kept as .bak) and creates only what is '
               'missing; migration on `up` happens only with --migrate.  The solver covers the product of states, flags and sequences.')
FUNCTIONS = ['commands.run.cmd_run', 'commands.explain.cmd_explain', 'commands.discover.cmd_discover', 'commands.diag.cmd_diag', 'commands.inspect.cmd_inspect',
             'commands.init.cmd_init', 'cli.init_config', 'cli._check_merchant_migration', 'cli._migrate_csv_to_rules', 'config_loader.load_config',
             'report.write_summary_file_vue']
BOUNDS = '7 initial-state flags, 4 argument flags, command index 0..6, sequences of <= 2 commands; one data file with 3 rows'
OUTSIDE = 'the self-update command; interactive prompts (stdout is not a tty here); writes through primitives that bypass the file system tree comparison (none: the tree is compared byte for byte)'
STUBS = ['sys.stdout / sys.stderr redirected while a command runs; the working directory is the scratch budget']
TRUSTED = []
ASSUMPTIONS = []

DATA = 'Date,Description,Amount\n01/05/2024,NETFLIX 123,9.99\n02/07/2024,COSTCO WHSE,250.00\n03/09/2024,MYSTERY SHOP,12.00\n'
CSV = 'Pattern,Merchant,Category,Subcategory,Tags\nNETFLIX,Netflix,Subscriptions,Streaming,fun\nCOSTCO,Costco,Food,Grocery,\n'
CSV_NO_RULES = 'Pattern,Merchant,Category,Subcategory,Tags\n# no rules yet\n'
RULES = '[Netflix]\nmatch: contains("NETFLIX")\ncategory: Subscriptions\nsubcategory: Streaming\n\n[Costco]\nmatch: contains("COSTCO")\ncategory: Food\n'
RULES_NO_RULES = '# only a transform so far\nfield.description = regex_replace(field.description, "^X ", "")\n'
VIEWS = '[Everything]\nfilter: True\n\n[Big]\nfilter: total > 100\n'
SETTINGS = 'year: 2024\ndata_sources:\n  - name: Bank\n    file: data/bank.csv\n    format: "{date:%m/%d/%Y}, {description}, {amount}"\n'
_POOL = {}
_COUNTER = itertools.count()


def pool():
    if 'root' not in _POOL:
        _POOL['root'] = tempfile.mkdtemp(prefix='verif_c20_')
    return _POOL['root']


def build(st):
    """st: dict of booleans: rules, rules_empty, csv, csv_empty, views, views_line, views_missing_file, rules_line, bak, output, gitignore"""
    root = os.path.join(pool(), 'b%06d' % next(_COUNTER))
    cfg = os.path.join(root, 'config')
    os.makedirs(cfg)
    os.makedirs(os.path.join(root, 'data'))
    with open(os.path.join(root, 'data', 'bank.csv'), 'w') as f:
        f.write(DATA)
    settings = SETTINGS
    if st.get('rules'):
        with open(os.path.join(cfg, 'merchants.rules'), 'w') as f:
            f.write(RULES_NO_RULES if st.get('rules_empty') else RULES)
    if st.get('rules_line'):
        settings += 'merchants_file: config/merchants.rules\n'
    if st.get('csv'):
        with open(os.path.join(cfg, 'merchant_categories.csv'), 'w') as f:
            f.write(CSV_NO_RULES if st.get('csv_empty') else CSV)
    if st.get('views'):
        with open(os.path.join(cfg, 'views.rules'), 'w') as f:
            f.write(VIEWS)
    if st.get('views_line'):
        settings += 'views_file: config/views.rules\n'
    if st.get('bak'):
        with open(os.path.join(cfg, 'merchant_categories.csv.bak'), 'w') as f:
            f.write('older backup\n')
    if st.get('output'):
        os.makedirs(os.path.join(root, 'output'))
        with open(os.path.join(root, 'output', 'notes.txt'), 'w') as f:
            f.write('my notes\n')
    if st.get('gitignore'):
        with open(os.path.join(root, '.gitignore'), 'w') as f:
            # the file an older `tally init` generated, with the user's own entries appended
            f.write('# Tally - Ignore sensitive data\ndata/\noutput/\n\n# mine\nsecret-notes/\n*.kdbx\n')
    if st.get('crlf'):
        settings = settings.replace('\n', '\r\n')
    with open(os.path.join(cfg, 'settings.yaml'), 'w', newline='') as f:
        f.write(settings)
    return root


def _quiet(fn, *a, **k):
    import contextlib
    import io
    buf = io.StringIO()
    with contextlib.redirect_stdout(buf), contextlib.redirect_stderr(buf):
        try:
            return fn(*a, **k)
        except SystemExit:
            return None


COMMANDS = ['up-html', 'up-json', 'up-summary', 'explain', 'discover', 'diag', 'inspect']


def run(cmd, root, migrate=False, explicit_output=False, embedded=True):
    import argparse
    reset_tally_caches()
    cwd = os.getcwd()
    os.chdir(root)
    try:
        if cmd.startswith('up'):
            from tally.commands import run as m
            fmt = cmd.split('-')[1]
            out = os.path.join(root, 'output', 'custom.html') if explicit_output else None
            if explicit_output:
                os.makedirs(os.path.join(root, 'output'), exist_ok=True)
            args = argparse.Namespace(config=None, settings='settings.yaml', quiet=False, migrate=migrate, only=None, category=None, format=fmt,
                                      summary=(fmt == 'summary'), verbose=1, output=out, embedded_html=embedded, group_by='merchant')
            _quiet(m.cmd_run, args)
        elif cmd == 'explain':
            from tally.commands import explain as m
            _quiet(m.cmd_explain, argparse.Namespace(config=None, settings='settings.yaml', merchant=['Netflix'], verbose=1, format='text', view=None,
                                                     category=None, tags=None, month=None, location=None, amount=None))
        elif cmd == 'discover':
            from tally.commands import discover as m
            _quiet(m.cmd_discover, argparse.Namespace(config=None, settings='settings.yaml', limit=0, format='json'))
        elif cmd == 'diag':
            from tally.commands import diag as m
            _quiet(m.cmd_diag, argparse.Namespace(config=None, settings='settings.yaml', format='text'))
        elif cmd == 'inspect':
            from tally.commands import inspect as m
            _quiet(m.cmd_inspect, argparse.Namespace(file=os.path.join(root, 'data', 'bank.csv'), rows=3))
        elif cmd == 'init':
            from tally.commands import init as m
            _quiet(m.cmd_init, argparse.Namespace(dir='tally'))
    finally:
        os.chdir(cwd)


def migrated_now(before, after):
    csv = os.path.join('config', 'merchant_categories.csv')
    return csv in before and csv not in after


def frame_ok(before, after, cmd, migrate, st):
    """The frame condition of the property, over {relative path: bytes}."""
    ok = True
    for path, content in before.items():
        if path.startswith('output' + os.sep):
            continue
        now = after.get(path)
        if cmd == 'init' or (cmd.startswith('up') and migrate):
            if path == os.path.join('config', 'settings.yaml'):
                ok = ok and now is not None and now.startswith(content)              # may only gain appended lines
                continue
            if path == os.path.join('config', 'merchant_categories.csv'):
                moved = after.get(path + '.bak')
                ok = ok and (now == content or (now is None and moved == content))   # kept, or kept as the backup
                continue
            if path == os.path.join('config', 'merchants.rules') and now != content:
                # an existing merchants.rules may only be replaced by the migration if it is kept as merchants.rules.bak
                ok = ok and after.get(path + '.bak') == content and migrated_now(before, after)
                continue
            if path == os.path.join('config', 'merchant_categories.csv.bak') and now != content:
                # an older backup may only be replaced by the migration's own backup of the CSV
                ok = ok and now == before.get(os.path.join('config', 'merchant_categories.csv'))
                continue
        ok = ok and now == content
    new_files = [p for p in after if p not in before]
    for p in new_files:
        if p.startswith('output' + os.sep):
            continue
        if cmd == 'init':
            ok = ok and p in ('.gitignore', os.path.join('config', 'merchants.rules'), os.path.join('config', 'views.rules'),
                              os.path.join('config', 'merchant_categories.csv.bak'), os.path.join('config', 'settings.yaml'))
        elif cmd.startswith('up') and migrate:
            ok = ok and p in (os.path.join('config', 'merchants.rules'), os.path.join('config', 'merchant_categories.csv.bak'), os.path.join('config', 'merchants.rules.bak'))
        else:
            ok = False
    # migration happens only when requested (init / --migrate), only for a CSV that has rules and no merchants.rules yet
    migrated = os.path.join('config', 'merchant_categories.csv') in before and os.path.join('config', 'merchant_categories.csv') not in after
    if migrated:
        ok = ok and (cmd == 'init' or migrate)
        if cmd == 'init':
            ok = ok and not st.get('rules') and not st.get('csv_empty')     # init migrates only a CSV that has rules, and only once
    return ok


def analysis_commands(c):
    pool()

    def ob(rules: bool, csv: bool, views: bool, views_line: bool, migrate: bool, explicit_output: bool, csv_empty: bool) -> bool:
        """
        post: _
        """
        from engine import fsx
        import shutil
        if not COMMANDS[int(c)].startswith('up'):
            csv_empty = False
        st = {'rules': bool(rules), 'csv': bool(csv), 'csv_empty': bool(csv_empty), 'views': bool(views), 'views_line': bool(views_line), 'rules_line': bool(rules) and not (bool(csv) and bool(csv_empty)), 'output': bool(explicit_output)}
        embedded = not explicit_output
        root = build(st)
        cmd = COMMANDS[int(c)]
        before = fsx.snapshot(root)
        mig = bool(migrate) and cmd.startswith('up')
        run(cmd, root, migrate=mig, explicit_output=bool(explicit_output), embedded=bool(embedded))
        after = fsx.snapshot(root)
        ok = frame_ok(before, after, cmd, mig, st)
        shutil.rmtree(root, ignore_errors=True)
        return post(ok)
    return ob


def migrate_unreferenced(c):
    """`tally up --migrate` on a budget whose legacy CSV has rules AND whose config folder already holds a merchants.rules that
    settings.yaml does not name yet - with rules in it, or with only transforms / variables / comments: whatever it holds is the
    user's and must survive (as itself or as merchants.rules.bak)."""
    pool()

    def ob(rules_empty: bool, views: bool, bak: bool, crlf: bool, explicit_output: bool) -> bool:
        """
        post: _
        """
        from engine import fsx
        import shutil
        st = {'rules': True, 'rules_empty': bool(rules_empty), 'csv': True, 'csv_empty': False, 'views': bool(views), 'views_line': bool(views), 'rules_line': False,
              'bak': bool(bak), 'crlf': bool(crlf), 'output': bool(explicit_output)}
        root = build(st)
        cmd = COMMANDS[c]
        before = fsx.snapshot(root)
        run(cmd, root, migrate=True, explicit_output=bool(explicit_output), embedded=not explicit_output)
        after = fsx.snapshot(root)
        ok = frame_ok(before, after, cmd, True, st)
        shutil.rmtree(root, ignore_errors=True)
        return post(ok)
    return ob


def init_command(rules, csv):
    pool()

    def ob(rules_empty: bool, csv_empty: bool, views: bool, bak: bool, twice: bool) -> bool:
        """
        post: _
        """
        from engine import fsx
        import shutil
        views_line, rules_line, gitignore = False, (rules and not rules_empty), bak
        crlf = bool(views) and bool(bak)
        st = {'rules': bool(rules), 'rules_empty': bool(rules_empty), 'csv': bool(csv), 'csv_empty': bool(csv_empty), 'views': bool(views),
              'views_line': bool(views_line), 'rules_line': bool(rules_line), 'bak': bool(bak), 'gitignore': bool(gitignore), 'crlf': crlf}
        root = build(st)
        before = fsx.snapshot(root)
        run('init', root)
        after = fsx.snapshot(root)
        ok = frame_ok(before, after, 'init', False, st)
        if twice:
            run('init', root)
            after2 = fsx.snapshot(root)
            st2 = dict(st, rules=True, csv=os.path.join('config', 'merchant_categories.csv') in after)
            ok = ok and frame_ok(after, after2, 'init', False, st2)
        shutil.rmtree(root, ignore_errors=True)
        return post(ok)
    return ob


def init_elsewhere(legacy):
    """`tally init` run in an unrelated, empty folder while TALLY_CONFIG names ANOTHER budget: that budget - which nobody named on
    the command line - stays byte-identical (in particular its legacy CSV is not migrated)."""
    pool()

    def ob(views: bool, bak: bool) -> bool:
        """
        post: _
        """
        import argparse
        from engine import fsx
        import shutil
        st = {'rules': not legacy, 'csv': bool(legacy), 'views': bool(views), 'views_line': bool(views), 'rules_line': not legacy, 'bak': bool(bak), 'gitignore': bool(bak)}
        other = build(st)
        here = os.path.join(pool(), 'e%06d' % next(_COUNTER))
        os.makedirs(here)
        before = fsx.snapshot(other)
        saved = os.environ.get('TALLY_CONFIG')
        os.environ['TALLY_CONFIG'] = os.path.join(other, 'config')
        cwd = os.getcwd()
        os.chdir(here)
        try:
            reset_tally_caches()
            from tally.commands import init as m
            _quiet(m.cmd_init, argparse.Namespace(dir='tally'))          # 'tally' is the parser's default: no directory was named
        finally:
            os.chdir(cwd)
            if saved is None:
                os.environ.pop('TALLY_CONFIG', None)
            else:
                os.environ['TALLY_CONFIG'] = saved
        ok = fsx.snapshot(other) == before
        shutil.rmtree(other, ignore_errors=True)
        shutil.rmtree(here, ignore_errors=True)
        return post(ok)
    return ob


def sequences(c1):
    pool()

    def ob(c2: int, rules: bool, csv: bool) -> bool:
        """
        pre: 0 <= c2 <= 6
        post: _
        """
        from engine import fsx
        import shutil
        views_line = views = csv
        st = {'rules': bool(rules), 'csv': bool(csv), 'views': bool(views), 'views_line': bool(views_line), 'rules_line': bool(rules)}
        root = build(st)
        cmds = (COMMANDS + ['init'])
        first, second = cmds[int(c1)], COMMANDS[_pick(c2, 7)]
        s0 = fsx.snapshot(root)
        run(first, root)
        s1 = fsx.snapshot(root)
        ok = frame_ok(s0, s1, first, False, st)
        run(second, root)
        s2 = fsx.snapshot(root)
        ok = ok and frame_ok(s1, s2, second, False, st)
        shutil.rmtree(root, ignore_errors=True)
        return post(ok)
    return ob


def obligations(tier, seed):
    q = tier == 'quick'
    to = 280 if q else 1200
    obs = []
    for c, name in enumerate(COMMANDS):
        obs.append(Obligation(id=f'readonly-{name}', factory='analysis_commands', params={'c': c}, timeout=to, group='analysis commands are read-only',
                              bounds=f'`tally {name}`; symbolic: merchants.rules (+ merchants_file line) / legacy CSV / views.rules present, views_file line, --migrate, --output'))
    for c in ((0, 1) if q else (0, 1, 2)):
        obs.append(Obligation(id=f'migrate-unreferenced-{COMMANDS[c]}', factory='migrate_unreferenced', params={'c': c}, timeout=to, group='migration keeps what exists',
                              bounds=f'`tally {COMMANDS[c]} --migrate`, legacy CSV with rules and a merchants.rules that settings.yaml does not name; symbolic: that file holds rules / only transforms, views.rules (+line), older .bak, CRLF settings, --output'))
    for rules in (False, True):
        for csv in (False, True):
            obs.append(Obligation(id=f'init-rules{int(rules)}-csv{int(csv)}', factory='init_command', params={'rules': rules, 'csv': csv}, timeout=to, group='init keeps existing files',
                                  bounds=f'merchants.rules present={rules}, legacy CSV present={csv}; symbolic: rules file without rules, CSV without rules, views.rules (+line), .bak/.gitignore, init run once or twice'))
    for c1, name in enumerate(COMMANDS + ['init']):
        if q and c1 not in (0, 3, 4, 7):
            continue
        obs.append(Obligation(id=f'seq-{name}-then-any', factory='sequences', params={'c1': c1}, timeout=to, group='command sequences',
                              bounds=f'`tally {name}` followed by a command selected by a symbolic index (0..6); symbolic merchants.rules / CSV (+views) present'))
    for legacy in (True, False):
        obs.append(Obligation(id=f'init-elsewhere-{"legacy" if legacy else "rules"}', factory='init_elsewhere', params={'legacy': legacy}, timeout=120, group='init keeps what exists',
                              bounds=f'`tally init` in an empty unrelated folder while TALLY_CONFIG names a budget with {"a legacy CSV" if legacy else "a merchants.rules"}; symbolic: views.rules, .bak/.gitignore present'))
    return obs
