"""C11 - tally up honours every setting: report = totals(classify(parse(sources)))."""
from engine.ob import REPO_SRC  # noqa: E402
from engine.ob import pick as _pick, flag as _flag  # noqa: F401
from engine.ob import Obligation, post, reset_tally_caches
from harness import wiring as W

LEVEL = 'other'
EXPLANATION = ('Wiring level (the whole-process statement - files on disk to report text - runs through yaml, argparse and number '
               'formatting and is outside reach): the real cmd_run runs under CrossHair with its collaborators replaced in the module '
               'namespace by recorders driven by SYMBOLIC per-source flags (supplemental, file exists, parser raises, decimal separator, '
               'delimiter, header, negate), symbolic rule mode, rules-file kind and views flag.  Assertions are over the recorded calls: '
               'every non-supplemental existing source is parsed exactly once with its own FormatSpec, separator, the transforms and the '
               'rules loaded from the configured file under the configured mode (checked by classifying probe transactions with the '
               'rules actually passed) and the supplemental rows; analysis receives the concatenation in source order; a missing or '
               'raising source leaves the others untouched; views are applied iff configured.  The real load_config runs with only '
               'load_settings and the file-existence test stubbed.')
FUNCTIONS = ['commands.run.cmd_run', 'cli._check_merchant_migration', 'merchant_utils.get_all_rules/get_transforms', 'config_loader.load_config',
             'config_loader.resolve_source_format', 'format_parser.parse_format_string']
BOUNDS = '1-3 data sources, each with 4-6 symbolic boolean settings; rule mode, rules-file kind, views flag, output format symbolic'
OUTSIDE = 'yaml parsing, CLI argument parsing, the text of the reports (C12), real CSV contents (C05)'
STUBS = ['in tally.commands.run: load_config (sources built from flags, real resolve_source_format), find_config_dir, os.path.exists, '
         'parse_generic_csv / parse_amex / parse_boa (recorders returning canned transactions), load_supplemental_sources, analyze_transactions, '
         'classify_by_sections, print_*, export_*, write_summary_file_vue, print',
         'load-config obligations: config_loader.load_settings returns the settings dict; config_loader.os.path.exists/isdir answer from flags']
TRUSTED = []
ASSUMPTIONS = []


def _expected_probe(mode, kind, has_supp):
    """Category the probe transactions get from the rules file (harness.wiring.RULES_TEXT) under the configured mode."""
    if kind == 'rules':
        first = 'Subscriptions' if mode == 'most_specific' else 'Shopping'
        return (first, 'Ordered' if has_supp else 'Unknown')
    if kind == 'csv':
        return ('ShoppingCsv', 'Unknown')
    return ('Unknown', 'Unknown')


def run_wiring(n, kind, focus='sources'):
    W.rules_path('rules')
    W.rules_path('csv')      # temporary files are created before the analysis starts
    def core(sup0=False, sup1=False, ex0=True, ex1=True, ex2=True, rs0=False, rs1=False, cd0=False, cd1=True, cd2=False,
             ms=False, views=False, fmt=0):
        from tally.commands import run as runmod
        reset_tally_caches()
        flags = [{'supplemental': sup0, 'exists': ex0, 'raises': rs0, 'comma_decimal': cd0, 'delimiter': True},
                 {'supplemental': sup1, 'exists': ex1, 'raises': rs1, 'comma_decimal': cd1, 'no_header': True},
                 {'supplemental': False, 'exists': ex2, 'raises': False, 'comma_decimal': cd2, 'negate': True}][:n]
        mode = 'most_specific' if ms else 'first_match'
        rec = W.Recorder(flags, rule_mode=mode, rules_kind=kind, views=views)
        fmtname = ['summary', 'json', 'markdown', 'html'][_pick(fmt, 4)]
        args = W.run_args(format=fmtname, summary=(fmtname == 'summary'), output='/budget/out.html')
        code = W.run_command(runmod, 'cmd_run', args, rec)
        parses = [c for c in rec.calls if c[0] == 'parse']
        srcs = rec.sources
        exp_idx = [i for i, f in enumerate(flags) if not f['supplemental'] and f['exists']]
        ok = [p[1] for p in parses] == exp_idx
        has_supp = any(f['supplemental'] and f['exists'] for f in flags) or any(f['supplemental'] for f in flags)
        for p in parses:
            i = p[1]
            ok = ok and p[2] == f'/budget/data/s{i}.csv' and p[3] is srcs[i]['_format_spec'] and p[4] == srcs[i]['name']
            ok = ok and p[5] == (',' if flags[i]['comma_decimal'] else '.')
            ok = ok and p[6] == _expected_probe(mode, kind, any(f['supplemental'] for f in flags))
            ok = ok and sorted((p[7] or {}).keys()) == sorted({'orders'} if any(f['supplemental'] for f in flags) else set())
        # per-source settings landed on that source's own spec
        for i, s in enumerate(srcs):
            spec = s['_format_spec']
            ok = ok and (spec.delimiter == 'tab') == bool(flags[i].get('delimiter')) and spec.has_header == (not flags[i].get('no_header'))
            ok = ok and spec.negate_amount == bool(flags[i].get('negate'))
            for j in range(i):
                ok = ok and spec is not srcs[j]['_format_spec']
        good = [i for i in exp_idx if not flags[i]['raises']]
        analyses = [c for c in rec.calls if c[0] == 'analyze']
        if not good:
            ok = ok and code == 1 and not analyses
        else:
            exp_txns = [t for i in good for t in W.canned_txns(i)]
            ok = ok and len(analyses) == 1 and [(t['raw_description'], t['amount']) for t in analyses[0][1]] == [(t['raw_description'], t['amount']) for t in exp_txns]
            ok = ok and (len([c for c in rec.calls if c[0] == 'classify_by_sections']) == 1) == bool(views)
            outs = [c[0] for c in rec.calls if c[0] in ('export_json', 'export_markdown', 'write_summary_file_vue', 'print_summary', 'print_sections_summary')]
            want = {'json': ['export_json'], 'markdown': ['export_markdown'], 'html': ['write_summary_file_vue']}.get(fmtname)
            if want:
                ok = ok and outs == want
            else:
                ok = ok and len(outs) == 1 and outs[0] in ('print_summary', 'print_sections_summary')
        return post(ok)

    def ob_sources(sup0: bool, sup1: bool, ex0: bool, ex1: bool, ex2: bool, rs0: bool, rs1: bool) -> bool:
        """
        post: _
        """
        return core(sup0=sup0, sup1=sup1, ex0=ex0, ex1=ex1, ex2=ex2, rs0=rs0, rs1=rs1, ms=True, views=True, fmt=1)

    def ob_settings(cd0: bool, cd1: bool, cd2: bool, ms: bool, sup1: bool) -> bool:
        """
        post: _
        """
        return core(cd0=cd0, cd1=cd1, cd2=cd2, ms=ms, views=True, fmt=1, sup1=sup1)

    def ob_output(ms: bool, views: bool, fmt: int, sup1: bool, ex1: bool) -> bool:
        """
        pre: 0 <= fmt <= 3
        post: _
        """
        return core(ms=ms, views=views, fmt=fmt, sup1=sup1, ex1=ex1)
    return {'sources': ob_sources, 'settings': ob_settings, 'output': ob_output}[focus]


def run_pipeline(focus='amounts'):
    """report = totals(classify(parse(sources))), end to end inside the real cmd_run: the REAL parse_generic_csv / parse_amount /
    normalize_merchant / analyze_transactions run on two sources whose amount cells go through the float() contract stub (symbolic
    exact-real values); what export_json is handed must hold exactly the figures the property dictates."""
    W.rules_path('rules')

    def core(v0=12.5, v1=-3.0, v2=7.25, cd0=False, cd1=True, neg1=False, hdr1=True):
        from tally.commands import run as runmod
        from harness.C05 import ref_amount_text
        reset_tally_caches()
        flags = [{'supplemental': False, 'exists': True, 'raises': False, 'comma_decimal': cd0},
                 {'supplemental': False, 'exists': True, 'raises': False, 'comma_decimal': cd1, 'negate': neg1, 'no_header': not hdr1}]
        bodies = ['1.234,5', '7', '3,5']
        rows = {0: [['date', 'description', 'amount'], ['01/05/2024', 'AMAZON 1', bodies[0]], ['01/06/2024', 'COFFEE BAR', bodies[1]]],
                1: [['01/07/2024', 'X AMAZON PRIME', bodies[2]]] if not hdr1 else [['h', 'h', 'h'], ['01/07/2024', 'X AMAZON PRIME', bodies[2]]]}
        rec = W.Recorder(flags, rule_mode='first_match', rules_kind='rules', views=False, real_analyze=True,
                         real_parse={'rows': rows, 'vals': {0: [v0, v1], 1: [v2]}})      # a header record never reaches float()
        args = W.run_args(format='json', summary=False, output='/budget/out.html')
        code = W.run_command(runmod, 'cmd_run', args, rec)
        outs = [c for c in rec.calls if c[0] == 'export_json']
        if code not in (None, 0) or len(outs) != 1:
            return post(False)
        stats = outs[0][1][0]
        amounts = [v0, v1, (-v2 if neg1 else v2)]
        ok = stats['count'] == 3
        pos = sum(a for a in amounts if a > 0)
        neg = sum(-a for a in amounts if a < 0)
        ok = ok and stats['spending_total'] == pos and stats['credits_total'] == neg and stats['income_total'] == 0
        ok = ok and stats['transfers_in'] == 0 and stats['transfers_out'] == 0 and stats['investment_total'] == 0
        ok = ok and stats['cash_flow'] == neg - pos
        bm = stats['by_merchant']
        # two merchants: the one the [General] rule names (both AMAZON rows) and the unclassified one (how its display name is derived is C01's subject)
        shop = [m for m in bm.values() if m['category'] == 'Shopping']
        unk = [m for m in bm.values() if m['category'] == 'Unknown']
        ok = ok and len(bm) == 2 and len(shop) == 1 and len(unk) == 1 and 'General' in bm and shop[0]['count'] == 2 and unk[0]['count'] == 1
        ok = ok and sorted(shop[0]['payments']) == sorted([amounts[0], amounts[2]]) and unk[0]['payments'] == [amounts[1]]
        # each source's cells were normalised under ITS OWN decimal convention
        want = {0: [ref_amount_text(bodies[0], ',' if cd0 else '.')[1], ref_amount_text(bodies[1], ',' if cd0 else '.')[1]],
                1: [ref_amount_text(bodies[2], ',' if cd1 else '.')[1]]}
        ok = ok and [(i, fl) for (i, fl, _d) in rec.float_args] == [(0, want[0]), (1, want[1])]
        return post(ok)

    def ob_amounts(v0: float, v1: float, v2: float, neg1: bool) -> bool:
        """
        pre: v0 != 0 and v1 != 0 and v2 != 0
        pre: -1000000.0 < v0 < 1000000.0 and -1000000.0 < v1 < 1000000.0 and -1000000.0 < v2 < 1000000.0
        post: _
        """
        return core(v0=v0, v1=v1, v2=v2, neg1=neg1)

    def ob_settings(cd0: bool, cd1: bool, neg1: bool, hdr1: bool, v2: float) -> bool:
        """
        pre: 0.0 < v2 < 1000000.0
        post: _
        """
        return core(cd0=cd0, cd1=cd1, neg1=neg1, hdr1=hdr1, v2=v2)
    return {'amounts': ob_amounts, 'settings': ob_settings}[focus]


class _OsPath:
    def __init__(self, table):
        import os
        self._t = table
        self.path = type('P', (), {})()
        self.path.join = os.path.join
        self.path.dirname = os.path.dirname
        self.path.abspath = lambda p: p
        self.path.normpath = os.path.normpath
        self.path.isdir = lambda p: True
        self.path.exists = lambda p: bool(self._t.get(os.path.normpath(p), False))

    def __getattr__(self, n):
        import os
        return getattr(os, n)


def load_config_ob(focus='overrides'):
    """Real load_config: per-source FormatSpec overrides, rule_mode validation, rules-file resolution."""
    def core(dl0=False, dl1=True, hh0=True, hh1=False, ng0=False, ng1=True, mode=0, has_mf=True, mf_exists=True, csv_exists=False):
        from tally import config_loader as cl
        reset_tally_caches()
        fmt = '{date:%m/%d/%Y}, {description}, {amount}'
        s0 = {'name': 'A', 'file': 'data/a.csv', 'format': fmt}
        s1 = {'name': 'B', 'file': 'data/b.csv', 'format': fmt}
        if dl0:
            s0['delimiter'] = 'tab'
        if dl1:
            s1['delimiter'] = 'regex:[A-Z]{3}\\S+'          # a delimiter given as a pattern: handed on exactly as written
        if hh0:
            s0['has_header'] = False
        if hh1:
            s1['has_header'] = False
        if ng0:
            s0['negate_amount'] = True
        if ng1:
            s1['negate_amount'] = True
        settings = {'year': 2024, 'data_sources': [s0, s1]}
        modes = [None, 'first_match', 'most_specific', 'bogus']
        mode = _pick(mode, 4)
        if modes[int(mode)] is not None:
            settings['rule_mode'] = modes[int(mode)]
        if has_mf:
            settings['merchants_file'] = 'config/merchants.rules'
        table = {'/b/config/merchants.rules': mf_exists, '/b/config/merchant_categories.csv': csv_exists}
        saved = (cl.load_settings, cl.os)
        cl.load_settings = lambda d, f='settings.yaml': dict(settings, data_sources=[dict(s) for s in settings['data_sources']])
        cl.os = _OsPath(table)
        try:
            cfg = cl.load_config('/b/config')
        finally:
            cl.load_settings, cl.os = saved
        a, b = cfg['data_sources'][0]['_format_spec'], cfg['data_sources'][1]['_format_spec']
        ok = a is not b
        ok = ok and a.delimiter == ('tab' if dl0 else None) and b.delimiter == ('regex:[A-Z]{3}\\S+' if dl1 else None)
        ok = ok and a.has_header == (not hh0) and b.has_header == (not hh1) and a.negate_amount == bool(ng0) and b.negate_amount == bool(ng1)
        ok = ok and cfg['rule_mode'] == ('most_specific' if int(mode) == 2 else 'first_match')
        ok = ok and (any('rule_mode' in w.get('message', '') for w in cfg['_warnings'])) == (int(mode) == 3)
        if has_mf:
            ok = ok and (cfg['_merchants_format'] == ('new' if mf_exists else None))
            ok = ok and (cfg['_merchants_file'] == ('/b/config/merchants.rules' if mf_exists else None))
        else:
            ok = ok and cfg['_merchants_format'] == ('csv' if csv_exists else None)
        return post(ok)

    def ob_overrides(dl0: bool, dl1: bool, hh0: bool, hh1: bool, ng0: bool, ng1: bool) -> bool:
        """
        post: _
        """
        return core(dl0=dl0, dl1=dl1, hh0=hh0, hh1=hh1, ng0=ng0, ng1=ng1)

    def ob_files(mode: int, has_mf: bool, mf_exists: bool, csv_exists: bool) -> bool:
        """
        pre: 0 <= mode <= 3
        post: _
        """
        return core(mode=mode, has_mf=has_mf, mf_exists=mf_exists, csv_exists=csv_exists)
    return {'overrides': ob_overrides, 'files': ob_files}[focus]


def obligations(tier, seed):
    q = tier == 'quick'
    obs = []
    for n in ([2, 3] if q else [1, 2, 3]):
        for kind in (['rules', 'csv'] if q else ['rules', 'csv', 'none']):
            for focus in ['sources', 'settings', 'output']:
                obs.append(Obligation(id=f'run-n{n}-{kind}-{focus}', factory='run_wiring', params={'n': n, 'kind': kind, 'focus': focus}, timeout=170 if q else 1200,
                                      group='cmd_run wiring', bounds=f'{n} sources, rules file kind {kind}; symbolic ' + {'sources': 'supplemental / file-exists / parser-raises flags per source', 'settings': 'decimal separator per source, rule mode, one supplemental flag (views on, format json)',
                                                                                                                         'output': 'rule mode, views flag, output format (4), one supplemental flag, one file-exists flag'}[focus]))
    for focus in ['amounts', 'settings']:
        obs.append(Obligation(id=f'pipeline-{focus}', factory='run_pipeline', params={'focus': focus}, reals=True, opaque=True, timeout=170 if q else 900,
                              group='end-to-end figures', bounds='real cmd_run -> parse_generic_csv -> normalize_merchant -> analyze_transactions on 2 sources / 3 rows (csv reader, float(), strptime stubbed by contract); symbolic '
                              + ('exact-real amounts of the three rows and the sign override of the second source' if focus == 'amounts' else 'decimal convention per source, sign and header overrides of the second source, one amount')))
    for focus in ['overrides', 'files']:
        obs.append(Obligation(id=f'load-config-{focus}', factory='load_config_ob', params={'focus': focus}, timeout=170 if q else 900, group='load_config',
                              bounds='2 sources with the same format text; symbolic ' + ('delimiter/header/negate overrides per source' if focus == 'overrides' else 'rule_mode (absent/first_match/most_specific/invalid), merchants_file present/exists, legacy CSV exists')))
    return obs
