"""C12 - HTML, JSON, Markdown and text outputs all render and carry the same data."""
import os
from engine.ob import REPO_SRC  # noqa: E402
from engine.ob import pick as _pick, flag as _flag  # noqa: F401
from engine.ob import Obligation, post, reset_tally_caches

LEVEL = 'other'
EXPLANATION = ('Applicable part, bounded symbolic execution (CrossHair + z3): the real export_json / export_markdown / print_summary / '
               'print_sections_summary / write_summary_file_vue run on the stats the real analyze_transactions produces from 2-4 transactions '
               'with SYMBOLIC exact-real amounts (all sign/zero configurations of the totals), enumerated tag/category layouts, with and '
               'without views, verbosity 0-2: no exception on any path; with json.dumps replaced by a recorder, the structures handed to it '
               'contain every merchant and transaction exactly once with its own tags/amount, the cash-flow figures are those of the '
               'analysis in every format, and the per-category type totals add up to them.  Not applicable within this family (see '
               'DESIGN.md): equality of the HTML file parsed back by an HTML parser and a JSON parser for ALL strings - json.dumps and '
               'html.parser are C/regex boundaries - which is instead decided on an enumerated family of hostile strings by direct runs.')
FUNCTIONS = ['analyzer.export_json', 'analyzer.export_markdown', 'analyzer.print_summary', 'analyzer.print_sections_summary',
             'report.write_summary_file_vue (build_section_merchants, build_category_view, make_merchant_id)', 'analyzer.analyze_transactions']
BOUNDS = '2-4 transactions, 5 layouts, symbolic real amounts in (-1e6, 1e6); merchant names <= 2 chars over (a, blank, _, quote, double quote) for id uniqueness; 14 hostile strings for the parse-back check'
OUTSIDE = 'formatted figures inside Markdown/text (number formatting is opaque under symbolic execution); parse-back for arbitrary strings'
STUBS = ['render-*-html / unique-merchant-ids: the three template files are read as 3-line stand-ins (parse-back-* use the real templates)', 'format(<symbolic number>, spec) returns "<num>"', 'x ** 0.5 returns a fresh non-negative real', 'report.json.dumps / analyzer json.dumps: recorder',
         'report.Path(...).write_text: recorder (no file is written)', 'print: swallowed']
TRUSTED = []
ASSUMPTIONS = ['amounts are exact reals']

LAYOUTS = {
    # (merchant, category, subcategory, month, tags)
    'mixed-tags': [('M1', 'Cat', 'Sub', 3, ['income']), ('M1', 'Cat', 'Sub', 3, []), ('M2', 'Shop', 'Online', 4, ['Transfer'])],
    'two-categories': [('M1', 'Shopping', 'Online', 3, []), ('M1', 'Shopping', 'Returns', 3, [])],
    'investment': [('M1', 'Cat', 'Sub', 1, ['investment']), ('M2', 'Cat', 'Sub', 2, ['large']), ('M2', 'Cat', 'Sub', 2, [])],
    'single': [('M1', 'Cat', 'Sub', 5, [])],
    'four': [('A', 'C1', 'S1', 1, []), ('B', 'C1', 'S2', 1, ['income']), ('A', 'C1', 'S1', 2, ['refund']), ('C', 'C2', 'S1', 2, ['transfer'])],
    # transactions that carry two of the special tags at once (a 401k transfer tagged by two rules)
    'double-tagged': [('M1', 'Cat', 'Sub', 1, ['investment', 'transfer']), ('M2', 'Cat', 'Sub', 2, ['Transfer', 'INCOME']), ('M3', 'Shop', 'X', 2, ['transfer', 'Investment'])],
}


def _txns(layout, amounts, descs=None):
    from datetime import datetime
    out = []
    for i, (m, c, s, mo, tags) in enumerate(LAYOUTS[layout]):
        out.append({'merchant': m, 'category': c, 'subcategory': s, 'date': datetime(2024, mo, 7 + i), 'amount': amounts[i], 'tags': list(tags),
                    'description': m, 'raw_description': (descs[i] if descs else f'RAW {m} {i}'), 'source': f'S{i % 2}', 'location': None,
                    'match_info': {'pattern': 'contains("X")', 'source': 'user', 'tags': list(tags)}})
        if i != 1:
            # values a `field:` directive can produce, falsy ones included (a flag that is False, a difference that is 0, an empty memo)
            out[-1]['extra_fields'] = {'over': amounts[i] > 20, 'delta': amounts[i] - amounts[0], 'note': f'n{i}', 'zero': 0, 'empty': '', 'items': []}
    return out


class _Views:
    """Minimal SectionConfig-like object with two views."""
    def __init__(self):
        from tally import section_engine
        self.cfg = section_engine.parse_sections('[All]\ndescription: everything\nfilter: True\n\n[Big]\nfilter: total > 50\n')


def _stats(layout, amounts, with_views, descs=None):
    from tally.analyzer import analyze_transactions, classify_by_sections, compute_section_totals
    stats = analyze_transactions(_txns(layout, amounts, descs))
    if with_views:
        v = _Views().cfg
        res = classify_by_sections(stats['by_merchant'], v, stats['num_months'])
        stats['sections'] = {name: compute_section_totals(ms) for name, ms in res.items()}
        stats['_sections_config'] = v
    return stats


class _PathRec:
    written = []

    def __init__(self, p):
        self.p = str(p)

    @property
    def parent(self):
        return _PathRec(self.p.rsplit('/', 1)[0])

    def __truediv__(self, o):
        return _PathRec(self.p + '/' + str(o))

    def write_text(self, text, encoding=None):
        _PathRec.written.append((self.p, text))

    def read_text(self, encoding=None):
        if self.p.endswith(('.html', '.css', '.js')) and not self.p.startswith('/out'):
            return {'html': '<html><style>/* CSS_PLACEHOLDER */</style><script>/* DATA_PLACEHOLDER */</script><script>/* JS_PLACEHOLDER */</script></html>',
                    'css': 'body{}', 'js': 'var x;'}[self.p.rsplit('.', 1)[1]]       # the templates' text is not the subject here
        raise FileNotFoundError(self.p)


def renders(layout, with_views, what):
    n = len(LAYOUTS[layout])

    def ob(a1: float, a2: float, a3: float, a4: float, verbose: int) -> bool:
        """
        pre: -1000000.0 < a1 < 1000000.0 and -1000000.0 < a2 < 1000000.0 and -1000000.0 < a3 < 1000000.0 and -1000000.0 < a4 < 1000000.0
        pre: 0 <= verbose <= 2 and a1 != 0 and a2 != 0 and a3 != 0 and a4 != 0
        post: _
        """
        from tally import analyzer, report, cli
        reset_tally_caches()
        verbose = _pick(verbose, 3)
        amounts = [a1, a2, a3, a4][:n]
        stats = _stats(layout, amounts, with_views)
        captured = []
        saved = (report.json, report.Path, analyzer.__dict__.get('print'))
        real_json = report.json

        class J:
            @staticmethod
            def dumps(obj, **kw):
                captured.append(obj)
                return '{}'

            def __getattr__(self, name):
                return getattr(real_json, name)
        report.json = J()
        analyzer.json = J()
        report.Path = _PathRec
        analyzer.print = lambda *a, **k: None
        _PathRec.written = []
        try:
            if what == 'markdown':
                analyzer.export_markdown(stats, verbose=verbose)
                return post(True)
            if what == 'text':
                if with_views:
                    analyzer.print_sections_summary(stats, year=2024)
                analyzer.print_summary(stats, year=2024, group_by='subcategory' if verbose else 'merchant')
                return post(True)
            if what == 'json':
                # export_json does `import json` inside the function: patch the module object's dumps for the call
                import json as _json
                real = _json.dumps
                _json.dumps = lambda obj, **kw: (captured.append(obj) or '{}')
                try:
                    analyzer.export_json(stats, verbose=verbose)
                finally:
                    _json.dumps = real
                out = captured[-1]
                s = out['summary']
                ok = s['income_total'] == round(stats['income_total'], 2) and s['credits_total'] == round(stats['credits_total'], 2)
                ok = ok and s['spending_total'] == round(stats['spending_total'], 2) and s['net_cash_flow'] == round(stats['cash_flow'], 2)
                ok = ok and s['transfers_total'] == round(stats['transfers_in'] + stats['transfers_out'], 2)
                ok = ok and sorted(m['name'] for m in out['merchants']) == sorted(stats['by_merchant'])
                return post(ok)
            # html
            report.write_summary_file_vue(stats, '/out/r.html', year=2024, sources=['S0', 'S1'], embedded_html=bool(verbose % 2))
            data = captured[-1]
            ok = len(_PathRec.written) >= 1
            for k_js, k_py in (('incomeTotal', 'income_total'), ('spendingTotal', 'spending_total'), ('creditsTotal', 'credits_total'), ('cashFlow', 'cash_flow'),
                               ('transfersIn', 'transfers_in'), ('transfersOut', 'transfers_out'), ('investmentTotal', 'investment_total')):
                ok = ok and data[k_js] == stats[k_py]
            # every merchant and every transaction exactly once in the category view, carrying its own tags and amount
            seen = []
            inc = inv = trf = spend = 0
            for cat in data['categoryView'].values():
                for sub in cat['subcategories'].values():
                    for mid, m in sub['merchants'].items():
                        seen.append(m['displayName'])
                        src = stats['by_merchant'][m['displayName']]['transactions']
                        ok = ok and len(m['transactions']) == len(src)
                        for tj, ts in zip(m['transactions'], src):
                            ok = ok and tj['description'] == ts['description'] and tj['amount'] == ts['amount'] and tj['tags'] == ts['tags'] and tj['month'] == ts['month'] and tj['source'] == ts['source']
                            ok = ok and (tj.get('extra_fields') or {}) == (ts.get('extra_fields') or {})
                tt = cat['typeTotals']
                inc, inv, trf, spend = inc + tt['income'], inv + tt['investment'], trf + tt['transfer'], spend + tt['spending']
            ok = ok and sorted(seen) == sorted(stats['by_merchant'])
            # the per-category sums add up to the analysed totals
            ok = ok and inc == stats['income_total'] and inv == stats['investment_total'] and trf == stats['transfers_in'] + stats['transfers_out'] and spend == stats['spending_total']
            if with_views:
                allv = data['sections'].get('all')
                members = sorted(name for name, d in stats['by_merchant'].items() if not any(t.lower() in ('income', 'transfer', 'investment') for t in d['tags']))
                if members:
                    ok = ok and allv is not None and sorted(m['displayName'] for m in allv['merchants'].values()) == members
                else:
                    ok = ok and allv is None          # a view without members is not emitted
            return post(ok)
        finally:
            report.json, report.Path = saved[0], saved[1]
            analyzer.json = real_json
            if saved[2] is None:
                analyzer.__dict__.pop('print', None)
            else:
                analyzer.print = saved[2]
    return ob


NLEN = 2


def unique_ids():
    """Two merchants whose names differ only in quotes, blanks or underscores both survive in the report data."""
    def ob(n1: str, n2: str) -> bool:
        """
        pre: 1 <= len(n1) <= NLEN and len(n2) == 1 and n1 != n2 and all(c in 'a _' + chr(39) + chr(34) for c in n1 + n2)
        post: _
        """
        from datetime import datetime
        from tally import report
        from tally.analyzer import analyze_transactions
        import ast as _ast
        n1 = _ast.literal_eval(repr(n1))
        n2 = _ast.literal_eval(repr(n2))
        txns = [{'merchant': n, 'category': 'C', 'subcategory': 'S', 'date': datetime(2024, 1, 5), 'amount': 5.0 + i, 'tags': [], 'description': n,
                 'raw_description': n, 'source': 'S', 'location': None} for i, n in enumerate((n1, n2))]
        stats = analyze_transactions(txns)
        captured = []
        saved = (report.json, report.Path)
        real_json = report.json

        class J:
            @staticmethod
            def dumps(obj, **kw):
                captured.append(obj)
                return '{}'
        report.json = J()
        report.Path = _PathRec
        try:
            report.write_summary_file_vue(stats, '/out/r.html')
        finally:
            report.json, report.Path = saved
        names = []
        for cat in captured[-1]['categoryView'].values():
            for sub in cat['subcategories'].values():
                names += [m['displayName'] for m in sub['merchants'].values()]
        return post(sorted(names) == sorted([n1, n2]))
    return ob


def unique_ids3():
    """Three or four merchants whose names collapse to related ids ("a'", "a", "a 2", "a_2"): every one survives in the data."""
    def ob(n1: str, variant: int) -> bool:
        """
        pre: 1 <= len(n1) <= NLEN and 0 <= variant <= 3 and all(c in 'a _' + chr(39) + chr(34) for c in n1)
        post: _
        """
        from datetime import datetime
        from tally import report
        from tally.analyzer import analyze_transactions
        import ast as _ast
        n1 = _ast.literal_eval(repr(n1))
        base = n1.replace("'", '').replace('"', '')
        extra = [base + ' 2', base + '_2', base.replace(' ', '_') + '_2', base + "'"][_pick(variant, 4)]
        names = []
        for n in (n1, base, extra, base + '_3'):
            if n and n.strip() and n not in names:
                names.append(n)
        txns = [{'merchant': n, 'category': 'C', 'subcategory': 'S', 'date': datetime(2024, 1, 5), 'amount': 5.0 + i, 'tags': [], 'description': n,
                 'raw_description': n, 'source': 'S', 'location': None} for i, n in enumerate(names)]
        stats = analyze_transactions(txns)
        captured = []
        saved = (report.json, report.Path)

        class J:
            @staticmethod
            def dumps(obj, **kw):
                captured.append(obj)
                return '{}'
        report.json = J()
        report.Path = _PathRec
        try:
            report.write_summary_file_vue(stats, '/out/r.html')
        finally:
            report.json, report.Path = saved
        got = []
        for cat in captured[-1]['categoryView'].values():
            for sub in cat['subcategories'].values():
                got += [m['displayName'] for m in sub['merchants'].values()]
        return post(sorted(got) == sorted(names))
    return ob


HOSTILE = ['</script>', '</SCRIPT >', '</Script>x', 'a</sCrIpT\n>', '<!-- <SCRIPT>', '<!--', '<!--<script>', ']]>', '/* JS_PLACEHOLDER */', '/* DATA_PLACEHOLDER */', '/* CSS_PLACEHOLDER */', '"quoted"',
           'back\\slash', "it's", 'café €', ' line', '<script>alert(1)</script>']


def _template_tokens():
    """Every placeholder-looking token in the CURRENT report writer and its templates (comment markers, {{...}}, __NAME__, %NAME%):
    data that contains one of them must still come back unchanged.  Derived from the source on every run."""
    import re
    found = []
    d = REPO_SRC + '/tally'
    for fn in sorted(os.listdir(d)):
        if fn.startswith('spending_report') or fn == 'report.py':
            try:
                with open(os.path.join(d, fn), encoding='utf-8', errors='replace') as f:
                    txt = f.read()
            except OSError:
                continue
            pats = [r'/\*\s*[A-Z][A-Z0-9_]{3,}\s*\*/', r'<!--\s*[A-Z][A-Z0-9_]{3,}\s*-->', r'__[A-Z][A-Z0-9_]{3,}__', r'%%?[A-Z][A-Z0-9_]{3,}%%?', r'\{\{\s*[A-Z][A-Z0-9_]{3,}\s*\}\}', r'\$\{[A-Z][A-Z0-9_]{3,}\}']
            for pat in pats:
                for m in re.findall(pat, txt):
                    if m not in found:
                        found.append(m)
    return found


def hostile_strings():
    return HOSTILE + [t for t in _template_tokens() if t not in HOSTILE]


def text_figures(k):
    """The figures PRINTED by the text summary and written to Markdown carry the sign of the analysed figure (direct runs: the
    formatted text of a symbolic number is opaque to the solver).  k picks the signs of net cash flow and net transfers."""
    cf_pos, tr_pos = bool(k & 1), bool(k & 2)

    class Q:
        def query(self):
            ok, why = self._run()
            r = {'solver_queries': 0, 'solver_time_s': 0.0, 'paths': 1, 'extra': {'decided_by': 'direct run (formatted text)'}}
            r.update({'status': 'CONFIRMED', 'message': why} if ok else {'status': 'REFUTED', 'args': {}, 'message': why})
            return r

        def _run(self):
            import contextlib
            import io
            import re
            import sys
            sys.path.insert(0, REPO_SRC)
            from datetime import datetime
            from tally import analyzer
            inc, spend = (1000.0, 300.0) if cf_pos else (100.0, 900.0)
            tin, tout = (500.0, 120.0) if tr_pos else (50.0, 750.0)
            rows = [('Job', inc, ['income']), ('Shop', spend, []), ('In', tin, ['transfer']), ('Out', -tout, ['transfer'])]
            txns = [{'merchant': m, 'category': 'C', 'subcategory': 'S', 'date': datetime(2024, 1 + i, 5), 'amount': a, 'tags': t, 'description': m,
                     'raw_description': m, 'source': 'S', 'location': None} for i, (m, a, t) in enumerate(rows)]
            stats = analyzer.analyze_transactions(txns)
            buf = io.StringIO()
            with contextlib.redirect_stdout(buf):
                analyzer.print_summary(stats, year=2024)
            text = buf.getvalue()
            md = analyzer.export_markdown(stats)
            for label, val in (('Net Cash Flow', stats['cash_flow']), ('Net Transfers', stats['transfers_net'])):
                for name, out in (('text', text), ('markdown', md)):
                    lines = [ln for ln in out.splitlines() if label in ln]
                    if len(lines) != 1:
                        return False, '%s: %d lines mention %s' % (name, len(lines), label)
                    digits = re.sub(r'[^0-9]', '', lines[0].split(label, 1)[1])
                    neg = '-' in lines[0].split(label, 1)[1]
                    if neg != (val < 0) or str(int(abs(val))) not in digits:
                        return False, '%s prints %r for %s = %r' % (name, lines[0].strip(), label, val)
            return True, 'printed figures carry the analysed sign and magnitude'

        def __call__(self, **kw):
            return self._run()[0]
    return Q()


def parse_back(i):
    """The written HTML, read back by html.parser and json, holds exactly the analysed descriptions (direct run per hostile string)."""
    text = hostile_strings()[i]

    class Q:
        def query(self):
            ok = self()
            r = {'solver_queries': 0, 'solver_time_s': 0.0, 'paths': 1, 'extra': {'decided_by': 'direct run (json.dumps / html.parser are C and regex boundaries)'}}
            r.update({'status': 'CONFIRMED', 'message': 'round trip exact'} if ok else {'status': 'REFUTED', 'args': {}, 'message': 'HTML round trip loses or alters data for %r' % text})
            return r

        def __call__(self, **kw):
            import json
            import os
            import sys
            import tempfile
            from html.parser import HTMLParser
            sys.path.insert(0, REPO_SRC)
            from tally import report
            reset_tally_caches()
            descs = [text, 'plain', text + ' tail']
            stats = _stats('mixed-tags', [12.5, -3.0, 40.0], False, descs)
            # merchant names carry the text as well
            d = tempfile.mkdtemp(prefix='verif_c12_')
            out = os.path.join(d, 'r.html')
            report.write_summary_file_vue(stats, out, year=2024, sources=[text])
            html = open(out, encoding='utf-8').read()

            class P(HTMLParser):
                def __init__(self):
                    super().__init__()
                    self.scripts, self.cur = [], None

                def handle_starttag(self, tag, attrs):
                    if tag == 'script':
                        self.cur = ''

                def handle_endtag(self, tag):
                    if tag == 'script' and self.cur is not None:
                        self.scripts.append(self.cur)
                        self.cur = None

                def handle_data(self, data):
                    if self.cur is not None:
                        self.cur += data
            p = P()
            p.feed(html)
            datas = [s for s in p.scripts if s.strip().startswith('window.spendingData')]
            if len(datas) != 1:
                return False
            js = datas[0].strip()
            try:
                data = json.loads(js[len('window.spendingData = '):].rstrip(';'))
            except ValueError:
                return False
            got = []
            for cat in data['categoryView'].values():
                for sub in cat['subcategories'].values():
                    for m in sub['merchants'].values():
                        got += [t['description'] for t in m['transactions']]
            return sorted(got) == sorted(descs) and data['sources'] == [text]
    return Q()


def obligations(tier, seed):
    q = tier == 'quick'
    obs = []
    to = 150 if q else 900
    combos = [('mixed-tags', False, 'html'), ('mixed-tags', True, 'html'), ('two-categories', False, 'markdown'), ('two-categories', False, 'html'),
              ('investment', True, 'text'), ('investment', False, 'json'), ('single', False, 'markdown'), ('four', True, 'html'), ('single', False, 'json'),
              ('mixed-tags', False, 'markdown'), ('four', False, 'text'), ('two-categories', True, 'json'), ('double-tagged', False, 'html'), ('double-tagged', True, 'json')]
    if not q:
        combos = [(l, v, w) for l in LAYOUTS for v in (False, True) for w in ('html', 'json', 'markdown', 'text')]
    for (l, v, w) in combos:
        obs.append(Obligation(id=f'render-{l}-{"views" if v else "noviews"}-{w}', factory='renders', params={'layout': l, 'with_views': v, 'what': w},
                              reals=True, opaque=True, sqrt_free=True, timeout=to, group='renders without error and carries the analysed data',
                              bounds=f'layout {l} ({len(LAYOUTS[l])} transactions with symbolic non-zero real amounts), views {v}, format {w}, verbosity 0-2'))
    obs.append(Obligation(id='unique-merchant-ids', factory='unique_ids', timeout=to, group='merchant ids are unique',
                          bounds='two distinct merchant names (1-2 chars and 1 char) over (a, blank, _, single quote, double quote)'))
    obs.append(Obligation(id='unique-merchant-ids-3', factory='unique_ids3', timeout=to, group='merchant ids are unique',
                          bounds='3-4 merchant names derived from a symbolic name (1-2 chars over a, blank, _, quotes): the name, the name without quotes, and "<base> 2" / "<base>_2" / "<base>_3" variants'))
    for k in range(4):
        obs.append(Obligation(id=f'text-figures-{k}', factory='text_figures', params={'k': k}, engine='smt', twin=False, timeout=60,
                              group='same figures in every format (direct runs)', bounds=f'net cash flow {"positive" if k & 1 else "negative"}, net transfers {"positive" if k & 2 else "negative"}: text summary and Markdown'))
    for i, t in enumerate(hostile_strings()):
        obs.append(Obligation(id=f'parse-back-{i:02d}', factory='parse_back', params={'i': i}, engine='smt', twin=False, timeout=60,
                              group='HTML parse-back on hostile strings (direct runs)', bounds=f'description / source name {t!r}'))
    return obs
