"""C09 - most_specific mode picks the most specific matching rule, whatever the order."""
import itertools
from engine.ob import Obligation, post, reset_tally_caches, const_true_false
from harness import sel

LEVEL = 'other'
EXPLANATION = ('Bounded symbolic execution (CrossHair + z3) of the real MerchantEngine.match in most_specific mode '
               'with a symbolic truth vector and symbolic integer priorities, against a ranking oracle whose '
               'specificity measure is read off the Python AST of each rule text; every permutation of the rule '
               'list is run inside the same path.  calculate_specificity is compared with the AST measure for a '
               'family of canonically spelled expressions.')
FUNCTIONS = ['tally.merchant_engine.MerchantEngine.match (most_specific branch)',
             'tally.merchant_engine.calculate_specificity', 'tally.merchant_engine._extract_pattern_length']
BOUNDS = 'N <= 3 rules (quick), 4 (thorough); priorities: symbolic ints; rule texts from a 12-member family'
OUTSIDE = 'non-canonical spellings where substring counting and an AST reading legitimately differ (weekday contains day)'
STUBS = ['symspec-* obligations: tally.merchant_engine.calculate_specificity returns a symbolic tuple per rule']
TRUSTED = ['ast.parse maps a literal to an ast.Constant holding it']
ASSUMPTIONS = ['the truth value of each rule text is arbitrary (truth-vector abstraction); C04 covers what real expressions evaluate to']


def ms_rank(exprs, cats, subs, sym_prios):
    n = len(exprs)
    keys = [sel.spec_key_from_ast(e) for e in exprs]

    def ob(b0: bool, b1: bool, b2: bool, b3: bool, p0: int, p1: int, p2: int, p3: int) -> bool:
        """
        post: _
        """
        reset_tally_caches()
        bs = [b0, b1, b2, b3][:n]
        ps = [p0, p1, p2, p3][:n]
        prios = [ps[i] if sym_prios[i] else 50 for i in range(n)]
        rules = sel.build_rules(n, cats, subs, prios=prios, exprs=exprs)
        sel.inject_truth(rules, bs)
        bsc = [bool(b) for b in bs]
        best, sbest = sel.most_specific_oracle(rules, bsc, keys)
        exp_tags = sel.tags_oracle(rules, bsc)
        ok = True
        idx = list(range(n))
        for perm in itertools.permutations(idx):
            prules = [rules[i] for i in perm]
            pb = [bsc[i] for i in perm]
            pk = [keys[i] for i in perm]
            res = sel.engine_for(prules, 'most_specific').match(dict(sel.TXN))
            pbest, psbest = sel.most_specific_oracle(prules, pb, pk)
            # within one order: exact tie goes to the earlier rule => identity with the oracle
            if pbest is None:
                ok = ok and (not res.matched) and res.category == '' and res.subcategory == ''
            else:
                ok = ok and res.matched and res.matched_rule is pbest and res.category == pbest.category
                ok = ok and res.merchant == pbest.merchant
                if psbest is None:
                    ok = ok and res.subcategory == ''
                else:
                    ok = ok and res.subcategory == psbest.subcategory
                # across orders: same rank key as in file order (result independent of order up to ties)
                kb = (best.priority,) + keys[rules.index(best)]
                kp = (pbest.priority,) + keys[rules.index(pbest)]
                ok = ok and kb == kp
            ok = ok and res.tags == exp_tags
        return post(ok)
    return ob


def ms_rank_symspec(n, cats, subs):
    """Ranking logic of match() against the lexicographic order for ALL specificity component values:
    calculate_specificity is replaced (module namespace) by a stub returning (priority, a_i, b_i, c_i) with
    symbolic non-negative integers."""
    def ob(b0: bool, b1: bool, b2: bool,
           p0: int, p1: int, p2: int, a0: int, a1: int, a2: int,
           f0: int, f1: int, f2: int, l0: int, l1: int, l2: int) -> bool:
        """
        pre: min(a0, a1, a2, f0, f1, f2, l0, l1, l2) >= 0
        post: _
        """
        reset_tally_caches()
        from tally import merchant_engine
        bs = [b0, b1, b2][:n]
        ps = [p0, p1, p2][:n]
        comp = [(a0, f0, l0), (a1, f1, l1), (a2, f2, l2)][:n]
        rules = sel.build_rules(n, cats, subs, prios=ps)
        sel.inject_truth(rules, bs)
        table = {r.name: (r.priority,) + comp[i] for i, r in enumerate(rules)}
        real = merchant_engine.calculate_specificity
        merchant_engine.calculate_specificity = lambda rule: table[rule.name]
        try:
            res = sel.engine_for(rules, 'most_specific').match(dict(sel.TXN))
        finally:
            merchant_engine.calculate_specificity = real
        bsc = [bool(b) for b in bs]
        best, sbest = sel.most_specific_oracle(rules, bsc, comp)
        if best is None:
            ok = (not res.matched) and res.category == ''
        else:
            ok = res.matched and res.matched_rule is best and res.category == best.category and res.merchant == best.merchant
            ok = ok and res.subcategory == (sbest.subcategory if sbest is not None else '')
        return post(ok)
    return ob


def ms_parsed(fam):
    """Engine built by the real parser from a generated .rules text (duplicate rule names, explicit priorities);
    truth vector symbolic."""
    spec = PARSED_FAMILIES[fam]
    text = ''
    for (name, expr, cat, sub, prio) in spec:
        text += f'[{name}]\nmatch: {expr}\n'
        if cat:
            text += f'category: {cat}\n'
        else:
            text += 'tags: t\n'
        if sub:
            text += f'subcategory: {sub}\n'
        if prio is not None:
            text += f'priority: {prio}\n'
        text += '\n'
    keys = [sel.spec_key_from_ast(e) for (_, e, _, _, _) in spec]
    prios = [50 if p is None else p for (_, _, _, _, p) in spec]       # what the file says (documented default 50)

    def ob(b0: bool, b1: bool, b2: bool, b3: bool) -> bool:
        """
        post: _
        """
        reset_tally_caches()
        from tally.merchant_engine import parse_merchants
        eng = parse_merchants(text, match_mode='most_specific')
        rules = eng.rules
        n = len(rules)
        bs = [b0, b1, b2, b3][:n]
        sel.inject_truth(rules, bs)
        res = eng.match(dict(sel.TXN))
        bsc = [bool(b) for b in bs]
        best, sbest = sel.most_specific_oracle(rules, bsc, keys, prios)
        if best is None:
            ok = (not res.matched) and res.category == ''
        else:
            ok = res.matched and res.matched_rule is best and res.category == best.category
            ok = ok and res.subcategory == (sbest.subcategory if sbest is not None else '')
        ok = ok and [r.priority for r in rules] == prios
        # the file is what the text says: one rule per header, in order
        ok = ok and [r.name for r in rules] == [x[0] for x in spec]
        return post(ok)
    return ob


LONG = 'L' * 120
PARSED_FAMILIES = [
    # duplicate names with different specificity, less specific first
    [('Costco', 'contains("CO")', 'Shop', 'A', None), ('Costco', 'contains("COSTCO") and amount > 5', 'Gas', 'B', None),
     ('Other', 'contains("X")', 'Misc', '', None)],
    [('Dup', 'contains("AAAA")', 'One', '', None), ('Dup', 'contains("B")', 'Two', 'S2', 60), ('Dup', 'contains("CC")', 'Three', 'S3', None)],
    # explicit priority 0 / negative against the default 50
    [('Fallback', 'contains("AMAZON") and amount > 1 and month == 3', 'Review', 'Marketplace', 0), ('Plain', 'contains("A")', 'Shopping', 'Online', None),
     ('Neg', 'contains("AMAZON PRIME VIDEO")', 'Video', '', -1)],
    # a very long literal against one more constraint kind
    [('Long', f'contains("{LONG}")', 'LongCat', '', None), ('Short', 'contains("UB") and amount > 60', 'ShortCat', 'S', None)],
    # many pattern calls against higher priority
    [('Many', ' and '.join(f'contains("P{i}")' for i in range(12)), 'ManyCat', '', None), ('Prio', 'contains("Q")', 'PrioCat', 'PS', 51),
     ('TagOnly', 'regex("T") and amount > 1 and month == 3', '', 'Sneaky', 99)],
]


MS_FILE = '''
field.note = uppercase(field.note)

[Uber]
match: contains("UBER")
category: Transport
subcategory: Rideshare

[Uber Eats]
match: contains("UBER") and contains("EATS")
category: Food
subcategory: Delivery
tags: meals

[Tagger]
match: contains("EATS")
tags: eats
'''
MS_DESCS = ['UBER EATS 12', 'UBER TRIP', 'EATS ONLY', 'zz']
MS_EXPECT = [('Food', 'Delivery'), ('Transport', 'Rideshare'), ('Unknown', 'Unknown'), ('Unknown', 'Unknown')]
_MS_PATH = {}


def ms_file(first):
    """A real .rules file whose less specific rule comes first, loaded the way a program does it: `first` (transforms / tag-only
    rules / rules in the DEFAULT mode) and then get_all_rules(path, 'most_specific').  The mode asked for last decides."""
    import os
    import tempfile
    if 'p' not in _MS_PATH:
        d = tempfile.mkdtemp(prefix='verif_c09_')
        _MS_PATH['p'] = os.path.join(d, 'merchants.rules')
        with open(_MS_PATH['p'], 'w') as f:
            f.write(MS_FILE)
    path = _MS_PATH['p']

    def ob(di: int, again: bool) -> bool:
        """
        pre: 0 <= di <= 3
        post: _
        """
        from engine.ob import pick
        from tally import merchant_utils
        reset_tally_caches()
        di = pick(di, 4)
        if first == 'transforms':
            merchant_utils.get_transforms(path)
        elif first == 'tagonly':
            merchant_utils.get_tag_only_rules(path)
        elif first == 'rules-default':
            merchant_utils.get_all_rules(path)
        rules = merchant_utils.get_all_rules(path, match_mode='most_specific')
        if again:
            rules = merchant_utils.get_all_rules(path, match_mode='most_specific')
        m, c, s_, info = merchant_utils.normalize_merchant(MS_DESCS[di], rules, amount=12.0)
        return post((c, s_) == MS_EXPECT[di])
    return ob


def spec_equal(expr):
    """calculate_specificity agrees with the AST measure (concrete expression, symbolic priority)."""
    def ob(p: int) -> bool:
        """
        post: _
        """
        from tally.merchant_engine import MerchantRule, calculate_specificity
        r = MerchantRule(name='R', match_expr=expr, category='C', priority=p)
        got = calculate_specificity(r)
        return post(tuple(got) == (p,) + sel.spec_key_from_ast(expr))
    return ob


def _families(tier, seed):
    import random
    rng = random.Random(1000 + seed)
    E = sel.SPEC_EXPRS
    fams = []
    # hand-picked: exact tie, pattern-count vs length, constraint vs length, priority override
    fams.append(([E[0], E[1], E[3]], [True, True, True], [True, False, True]))
    fams.append(([E[2], E[3], E[4]], [True, True, True], [False, True, True]))
    fams.append(([E[0], E[4], E[11]], [True, False, True], [True, True, True]))   # tag-only (with subcategory text) in the middle
    fams.append(([E[7], E[10], E[8]], [True, True, False], [True, True, False]))
    k = 4 if tier == 'quick' else 16
    for _ in range(k):
        ex = rng.sample(E, 3)
        cats = [rng.random() < 0.8 for _ in range(3)]
        subs = [rng.random() < 0.6 for _ in range(3)]
        fams.append((ex, cats, subs))
    return fams


def obligations(tier, seed):
    obs = []
    for i, (ex, cats, subs) in enumerate(_families(tier, seed)):
        obs.append(Obligation(id=f'rank3-{i}', factory='ms_rank',
                              params={'exprs': ex, 'cats': cats, 'subs': subs, 'sym_prios': [True, True, False]},
                              timeout=100 if tier == 'quick' else 240, group='ranking and order independence',
                              bounds='3 rules %r cats=%r subs=%r; truth vector symbolic; priorities of rules 0,1 symbolic ints, rule 2 = 50; all 6 permutations' % (ex, cats, subs)))
    if tier == 'thorough':
        E = sel.SPEC_EXPRS
        for i, ex in enumerate([[E[0], E[1], E[2], E[4]], [E[3], E[5], E[6], E[9]], [E[7], E[8], E[10], E[11]]]):
            obs.append(Obligation(id=f'rank4-{i}', factory='ms_rank',
                                  params={'exprs': ex, 'cats': [True, True, True, i != 1], 'subs': [True, False, True, True],
                                          'sym_prios': [True, True, False, False]},
                                  timeout=600, group='ranking and order independence',
                                  bounds='4 rules; truth vector symbolic; 2 symbolic priorities; all 24 permutations'))
        for i, ex in enumerate([[E[0], E[1], E[3]], [E[4], E[9], E[11]]]):
            obs.append(Obligation(id=f'rank3p-{i}', factory='ms_rank',
                                  params={'exprs': ex, 'cats': [True, True, True], 'subs': [True, True, False],
                                          'sym_prios': [True, True, True]},
                                  timeout=600, group='ranking and order independence',
                                  bounds='3 rules; truth vector and all three priorities symbolic'))
    for n, cats, subs in ([(2, [True, True], [True, False])] if tier == 'quick' else [(2, [True, True], [True, False]), (2, [True, True], [True, True]), (3, [True, True, True], [True, False, True]), (3, [True, False, True], [False, True, True])]):
        obs.append(Obligation(id=f'symspec-n{n}-{"".join(str(int(c)) for c in cats)}-{"".join(str(int(c)) for c in subs)}', factory='ms_rank_symspec',
                              params={'n': n, 'cats': cats, 'subs': subs}, timeout=200 if tier == 'quick' else 1200,
                              group='ranking, symbolic specificity',
                              bounds=f'{n} rules; truth vector, priorities and all three specificity components symbolic (ints >= 0, unbounded)'))
    for first in ['none', 'transforms', 'tagonly', 'rules-default']:
        obs.append(Obligation(id=f'ms-file-after-{first}', factory='ms_file', params={'first': first}, timeout=60, group='engine built by the real parser',
                              bounds=f'a real rules file (less specific rule first) loaded with get_all_rules(path, most_specific) after {first}; 4 descriptions (symbolic index)'))
    for fam in range(len(PARSED_FAMILIES)):
        obs.append(Obligation(id=f'parsed-{fam}', factory='ms_parsed', params={'fam': fam}, timeout=60,
                              group='engine built by the real parser',
                              bounds='rules file %d (%d rules; duplicate names / explicit priorities / long literals); truth vector symbolic' % (fam, len(PARSED_FAMILIES[fam]))))
    extra = [f'contains("{LONG}")', ' and '.join(f'contains("P{i}")' for i in range(12)), 'regex("A|B|C") and year == 2024 and day > 3 and source != "q"']
    for i, e in enumerate(sel.SPEC_EXPRS + extra):
        obs.append(Obligation(id=f'spec-{i}', factory='spec_equal', params={'expr': e}, timeout=30,
                              group='specificity measure', bounds='expression %r; priority symbolic int' % e))
    return obs
