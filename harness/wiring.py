"""Collaborator stubs for the command-level properties (C11, C16): the real cmd_run / cmd_explain / cmd_discover run with
their collaborators replaced IN THE MODULE NAMESPACE by recorders driven by (symbolic) flags.  No file of /repo is edited.

What stays real: the command function itself, load_config's per-source processing (resolve_source_format,
parse_format_string), get_transforms / _check_merchant_migration / get_all_rules on a real rules file (so the rule mode
really reaches the engine), normalize_merchant on a probe transaction inside the parse recorder.
"""
import os
import tempfile
import types

BUDGET = '/budget'
CONFIG_DIR = BUDGET + '/config'

RULES_TEXT = '''
field.description = regex_replace(field.description, "^X ", "")

[General]
match: contains("AMAZON")
category: Shopping

[Specific]
match: contains("AMAZON") and contains("PRIME")
category: Subscriptions

[Supp]
match: len([r for r in orders if r.item == "probe"]) > 0 and contains("ORDER")
category: Ordered
'''
_RULES_PATH = {}


_COPY = [0]


def rules_path(kind='rules', i=0):
    """A copy of the rules file that NO earlier command run has loaded (copy number i, written on first use under a directory
    created before the analysis starts; names come from a counter).  What an earlier command left in a cache keyed by the path
    can therefore neither help nor hide anything."""
    if kind not in _RULES_PATH:
        _RULES_PATH[kind] = tempfile.mkdtemp(prefix='verif_wiring_')
    d = os.path.join(_RULES_PATH[kind], 'c%06d' % i)
    p = os.path.join(d, 'merchants.rules' if kind == 'rules' else 'merchant_categories.csv')
    if not os.path.exists(p):
        os.makedirs(d, exist_ok=True)
        with open(p, 'w') as f:
            f.write(RULES_TEXT if kind == 'rules' else 'Pattern,Merchant,Category,Subcategory\nAMAZON,AmazonCsv,ShoppingCsv,\n')
    return p


class Exit(Exception):
    def __init__(self, code):
        self.code = code


class OsShim:
    """`os` for a command module: path.exists / isdir answer from the flag table, everything else is real."""
    def __init__(self, exists):
        self._exists = exists
        self.path = types.SimpleNamespace(
            exists=self._ex, isdir=lambda p: os.path.normpath(p) in (BUDGET, CONFIG_DIR, BUDGET + '/data', BUDGET + '/output'), join=os.path.join, normpath=os.path.normpath, dirname=os.path.dirname,
            abspath=lambda p: p, basename=os.path.basename, relpath=lambda p, *a: p, isfile=self._ex, splitext=os.path.splitext)
        self.sep = os.sep
        self.made = []

    def _ex(self, p):
        p = os.path.normpath(p)
        for k, v in self._exists.items():
            if os.path.normpath(k) == p:
                return v
        if p.startswith('/tmp') or p.startswith(tempfile.gettempdir()):
            return os.path.exists(p)
        return False

    def makedirs(self, p, exist_ok=False):
        self.made.append(p)

    def getcwd(self):
        return BUDGET

    def __getattr__(self, name):
        return getattr(os, name)


def make_sources(flags):
    """flags: list of dicts per source: {supplemental, exists, raises, comma_decimal, delimiter, has_header, negate, kind}"""
    fmts = ['{date:%m/%d/%Y}, {description}, {amount}', '{date:%m/%d/%Y}, {description}, {amount}', '{date:%Y-%m-%d}, {item}, {amount}']
    out = []
    for i, f in enumerate(flags):
        s = {'name': f'Src{i}', 'file': f'data/s{i}.csv', 'format': fmts[i % 3]}
        if i % 3 == 2:
            s['columns'] = {'description': '{item}'}
        if f.get('supplemental'):
            s['supplemental'] = True
            s['name'] = 'orders'
        if f.get('comma_decimal'):
            s['decimal_separator'] = ','
        if f.get('delimiter'):
            s['delimiter'] = 'tab'
        if f.get('no_header'):
            s['has_header'] = False
        if f.get('negate'):
            s['negate_amount'] = True
        out.append(s)
    return out


def canned_txns(i):
    from datetime import datetime
    if i == 0:
        # two identical Unknown rows (same day, text and amount) and two merchants whose names differ only in letter case
        dup = {'date': datetime(2024, 1, 9), 'raw_description': 'PARKING METER 0042', 'description': 'Parking Meter', 'merchant': 'Parking Meter', 'amount': 4.5,
               'category': 'Unknown', 'subcategory': 'Unknown', 'source': 'Src0', 'tags': [], 'location': None}
        return [{'date': datetime(2024, 1, 5), 'raw_description': 'UBER EATS 1', 'description': 'UBER EATS', 'merchant': 'UBER EATS', 'amount': 10.0,
                 'category': 'Food', 'subcategory': 'Delivery', 'source': 'Src0', 'tags': [], 'location': None},
                {'date': datetime(2024, 1, 6), 'raw_description': 'UBER* EATS 800', 'description': 'Uber Eats', 'merchant': 'Uber Eats', 'amount': 7.0,
                 'category': 'Unknown', 'subcategory': 'Unknown', 'source': 'Src0', 'tags': [], 'location': None},
                dict(dup), dict(dup), dict(dup, date=datetime(2024, 1, 12))]
    return [{'date': datetime(2024, 1 + i, 5), 'raw_description': f'RAW{i}A', 'description': f'M{i}', 'merchant': f'M{i}', 'amount': 10.0 + i,
             'category': 'Unknown' if i % 2 == 0 else 'Food', 'subcategory': 'Unknown' if i % 2 == 0 else 'Sub', 'source': f'Src{i}', 'tags': [], 'location': None},
            {'date': datetime(2024, 1 + i, 9), 'raw_description': f'RAW{i}B', 'description': f'N{i}', 'merchant': f'N{i}', 'amount': -3.5 - i,
             'category': 'Unknown', 'subcategory': 'Unknown', 'source': f'Src{i}', 'tags': [], 'location': None}]


class Recorder:
    def __init__(self, flags, rule_mode='first_match', rules_kind='rules', views=False, real_analyze=False, real_parse=None):
        self.real_analyze = real_analyze
        self.real_parse = real_parse          # {'rows': {source index: rows}, 'vals': {source index: float-stub values in reading order}}: the REAL parser reads them
        self.float_args = []
        self.flags = flags
        self.rule_mode = rule_mode
        self.rules_kind = rules_kind
        self.views = views
        self.calls = []
        self.printed = []
        self.sources = None
        self.copy = _COPY[0]
        _COPY[0] += 1

    # ----- config -----
    def load_config(self, config_dir, settings_file='settings.yaml', *_a, **_k):
        from tally.config_loader import resolve_source_format
        self.calls.append(('load_config', config_dir, settings_file))
        warnings = []
        srcs = [resolve_source_format(s, warnings=warnings) for s in make_sources(self.flags)]
        self.sources = srcs
        cfg = {'data_sources': srcs, '_warnings': warnings, 'year': 2024, 'rule_mode': self.rule_mode, '_config_dir': config_dir,
               'currency_format': '${amount}', 'sections': ('VIEWS' if self.views else None), '_views_file': None}
        if self.rules_kind == 'rules':
            cfg['_merchants_file'], cfg['_merchants_format'] = rules_path('rules', self.copy), 'new'
        elif self.rules_kind == 'csv':
            cfg['_merchants_file'], cfg['_merchants_format'] = rules_path('csv', self.copy), 'csv'
        else:
            cfg['_merchants_file'], cfg['_merchants_format'] = None, None
        return cfg

    def exists_table(self):
        t = {}
        for i, f in enumerate(self.flags):
            t[f'{BUDGET}/data/s{i}.csv'] = bool(f.get('exists', True))
        t[CONFIG_DIR] = True
        t[CONFIG_DIR + '/views.rules'] = False
        return t

    # ----- parsing -----
    def parse_generic_csv(self, filepath, format_spec, rules, source_name='CSV', decimal_separator='.', transforms=None, data_sources=None, **_k):
        from tally import merchant_utils
        idx = int(os.path.basename(filepath)[1:-4])
        if self.real_parse is not None:
            return self._real_parse(idx, filepath, format_spec, rules, source_name, decimal_separator, transforms, data_sources, _k)
        probe = merchant_utils.normalize_merchant('X AMAZON PRIME', rules, amount=5.0, transforms=transforms, data_sources=data_sources)
        probe2 = merchant_utils.normalize_merchant('ORDER 1', rules, amount=5.0, transforms=transforms, data_sources=data_sources)
        self.calls.append(('parse', idx, os.path.normpath(filepath), format_spec, source_name, decimal_separator,
                           (probe[1], probe2[1]), data_sources))
        if self.flags[idx].get('raises'):
            raise RuntimeError('cannot parse')
        return canned_txns(idx)

    def _real_parse(self, idx, filepath, format_spec, rules, source_name, decimal_separator, transforms, data_sources, kw):
        """The real parse_generic_csv (and, inside it, the real normalize_merchant with the rules cmd_run loaded) reads this
        source's rows; only the C-level boundaries are stubbed, as in C05: csv reader, float() (records its argument, returns
        the next symbolic value), strptime."""
        from harness import C05
        from tally import parsers
        rows = self.real_parse['rows'][idx]
        log = []
        n = sum(1 for _ in rows)
        vals = list(self.real_parse['vals'][idx])
        real_norm = parsers.normalize_merchant
        saved = C05._install(rows, log, [True] * n, [0] * n, vals)
        parsers.normalize_merchant = real_norm
        try:
            out = parsers.parse_generic_csv(filepath, format_spec, rules, source_name=source_name, decimal_separator=decimal_separator,
                                            transforms=transforms, data_sources=data_sources, **kw)
        finally:
            C05._restore(saved)
        self.float_args.append((idx, [e[1] for e in log if e[0] == 'float'], [e[1] for e in log if e[0] == 'delimiter']))
        self.calls.append(('parse', idx, os.path.normpath(filepath), format_spec, source_name, decimal_separator, None, data_sources))
        return out

    def load_supplemental_sources(self, config, config_dir, *_a, **_k):
        self.calls.append(('load_supplemental', config_dir))
        names = [s['name'].lower() for s in config['data_sources'] if s.get('_supplemental')]
        return {n: [{'item': 'probe', 'amount': 1.0}] for n in names}

    def analyze_transactions(self, txns, *_a, **_k):
        self.calls.append(('analyze', list(txns)))
        if self.real_analyze:
            from tally import analyzer
            return analyzer.analyze_transactions(list(txns))
        return {'by_merchant': {}, 'num_months': 1, 'by_month': {}, 'by_category': {}, 'total': 0, 'count': len(txns), 'monthly_avg': 0}

    def classify_by_sections(self, by_merchant, cfg, num_months=12, *_a, **_k):
        self.calls.append(('classify_by_sections', cfg))
        return {}

    def out(self, name):
        def f(*a, **k):
            self.calls.append((name, a, k))
            return ''
        return f

    def print(self, *a, **k):
        self.printed.append(' '.join(str(x) for x in a))


def install(mod, rec, extra=None):
    """Replace collaborators in the namespace of command module `mod`; returns an undo function."""
    import sys
    from tally import analyzer as an
    saved = {}

    def put(ns, name, val):
        saved[(id(ns), name)] = (ns, name, ns.get(name, _MISSING))
        ns[name] = val
    ns = vars(mod)
    # The budget directory /budget does not exist on disk: questions about paths under it are answered from the flag table
    # WHEREVER tally asks them (the command module, config_loader, a helper a refactoring introduced); other paths are real.
    shim = OsShim(rec.exists_table())
    real_exists, real_isfile, real_isdir, real_makedirs = os.path.exists, os.path.isfile, os.path.isdir, os.makedirs

    def under(p):
        try:
            q = os.path.normpath(os.fspath(p))
        except TypeError:
            return False
        return isinstance(q, str) and (q == BUDGET or q.startswith(BUDGET + '/'))
    pathns = vars(os.path)
    osns = vars(os)
    put(pathns, 'exists', lambda p: shim._ex(p) if under(p) else real_exists(p))
    put(pathns, 'isfile', lambda p: shim._ex(p) if under(p) else real_isfile(p))
    put(pathns, 'isdir', lambda p: shim.path.isdir(p) if under(p) else real_isdir(p))
    put(osns, 'makedirs', lambda p, *a, **k: shim.makedirs(p) if under(p) else real_makedirs(p, *a, **k))
    put(ns, 'load_config', rec.load_config)
    put(ns, 'find_config_dir', lambda *a, **k: CONFIG_DIR)
    put(ns, 'os', shim)
    put(ns, 'parse_generic_csv', rec.parse_generic_csv)
    put(ns, 'parse_amex', rec.out('parse_amex'))
    put(ns, 'parse_boa', rec.out('parse_boa'))
    put(ns, 'analyze_transactions', rec.analyze_transactions)
    put(ns, 'print', rec.print)
    put(ns, '_print_deprecation_warnings', lambda *a, **k: None)
    put(ns, '_check_deprecated_description_cleaning', lambda *a, **k: None)
    if 'load_supplemental_sources' in ns:
        put(ns, 'load_supplemental_sources', rec.load_supplemental_sources)
    for name in ('print_summary', 'print_sections_summary', 'write_summary_file_vue', '_print_explain_summary', '_print_merchant_explanation', '_print_description_explanation'):
        if name in ns:
            put(ns, name, rec.out(name))
    ans = vars(an)
    for name in ('export_json', 'export_markdown', 'compute_section_totals'):
        put(ans, name, rec.out(name))
    put(ans, 'classify_by_sections', rec.classify_by_sections)
    from tally import cli
    put(vars(cli), 'print', rec.print)
    for k, v in (extra or {}).items():
        put(ns, k, v)

    def undo():
        for (ns_, name, old) in saved.values():
            if old is _MISSING:
                ns_.pop(name, None)
            else:
                ns_[name] = old
    return undo


_MISSING = object()


def run_command(mod, fn_name, args, rec, extra=None):
    undo = install(mod, rec, extra)
    code = None
    try:
        try:
            getattr(mod, fn_name)(args)
        except SystemExit as e:
            code = e.code if e.code is not None else 0
    finally:
        undo()
    return code


def run_args(**kw):
    import argparse
    base = dict(config=None, settings='settings.yaml', quiet=True, migrate=False, only=None, category=None, format='summary', summary=True,
                verbose=0, output=None, embedded_html=True, group_by='merchant')
    base.update(kw)
    return argparse.Namespace(**base)
