"""C14 - migrating merchant_categories.csv to merchants.rules preserves classification."""
import os
import tempfile
from engine.ob import REPO_SRC  # noqa: E402
from engine.ob import need
from engine.ob import Obligation, post, reset_tally_caches

LEVEL = 'other'
EXPLANATION = ('The real load_merchant_rules -> csv_to_merchants_content -> parse_merchants pipeline runs on a family of CSV rule files '
               '(real temporary files).  (a) preservation, decided per file without a solver: the regex constant and every numeric/date '
               'constant the migrated engine evaluates equal what the CSV says.  (b) matching equivalence: for a symbolic description the '
               'legacy regex search and the migrated regex() agree, per pattern of the supported regex classes.  (c) whole-file '
               'equivalence under CrossHair: symbolic amount (exact real) and date, regex truth values as a symbolic vector shared by '
               'both sides (re stubbed in both modules): (merchant, category, subcategory, set(tags)) of the legacy loop and of the '
               'migrated engine coincide.')
FUNCTIONS = ['merchant_utils.load_merchant_rules', 'modifier_parser.parse_pattern_with_modifiers', 'merchant_engine.csv_to_merchants_content',
             'merchant_engine._modifier_to_expr', 'merchant_engine._regex_call', 'merchant_engine.parse_merchants', 'MerchantEngine.match',
             'merchant_utils.normalize_merchant (legacy loop)', 'merchant_engine.load_csv_as_engine']
BOUNDS = '10 CSV files (quick) with 2-6 rows; description <= 3 ASCII chars for (b); amount exact real, date in 2024-2025 for (c)'
OUTSIDE = 'regex features CrossHair does not model faithfully on symbolic text (\\b, back-references, capture groups with \\w, escaped dot) in (b) - covered by (a) only; amount None'
STUBS = ['(c): tally.merchant_utils.re.search(<rule pattern>) and the compiled pattern cache of tally.expr_parser return the same symbolic truth value per pattern']
TRUSTED = ['CrossHair\'s model of the re module on symbolic text (patterns on which it was seen to be unfaithful - escaped metacharacters under IGNORECASE - are excluded from (b))', 're.search(p, s.upper(), IGNORECASE) == re.search(p, s, IGNORECASE) is checked in (b), not assumed']
ASSUMPTIONS = ['amounts are exact reals']

HDR = 'Pattern,Merchant,Category,Subcategory,Tags\n'
CSV_FILES = {
    'plain': HDR + 'NETFLIX,Netflix,Subscriptions,Streaming,entertainment|recurring\nCOSTCO[amount>200],Costco Big,Shopping,Bulk,\nCOSTCO,Costco,Food,Grocery,\n',
    'escapes': HDR + 'UBER\\s(?!EATS),Uber,Transport,Rideshare,\n\\bAMZN\\b,Amazon,Shopping,Online,\n^SQ \\*(\\w+),Square,Food,Cafe,\n(A)\\1,Double,Misc,,x\nC\\.O\\\\D,Cod,Misc,,\n',
    'quotes': HDR + '"JOE""S",Joes,Food,Diner,\nIT\'S,Its,Food,,\n"A,B",Comma,Misc,,\n',
    'alternation': HDR + '(UBER|LYFT),Ride,Transport,Rideshare,\nBED BATH or BEYOND,BBB,Home,Goods,\nA and B,AB,Misc,,t\n',
    'amounts1': HDR + 'WIRE[amount>12500.75],Wire,Transfers,,\nLEASE[amount=10450.25],Lease,Housing,,\nFEE[amount<0.005],Fee,Bank,,\n',
    'amounts2': HDR + 'MID[amount:50-200],Mid,Misc,,\nGE[amount>=100000.5],Ge,Misc,,\nLE[amount<=1234567.89],Le,Misc,,\n',
    'dates': HDR + 'GAS[month=12],Gas,Auto,Fuel,winter\nGAS[month=1],Gas,Auto,Fuel,winter\nPAY[date:2024-03-01..2024-03-31],Pay,Income,,\nDAY[date=2024-05-05],Day,Misc,,\nGAS,Gas,Auto,Fuel,\n',
    'same-target': HDR + 'ZELLE[amount<100],Zelle,Transfers,P2P,\nZELLE[amount>5000],Zelle,Transfers,P2P,\nZELLE,Zelle Other,Misc,,\n',
    'tagonly': HDR + 'BIG[amount>500],Big,,,large\nSHOP,Shop,Shopping,,\n# comment line\n\nBIG,BigShop,Shopping,Big,\n',
    'combined': HDR + 'M[amount:50-200][date:2024-01-01..2024-12-31],Combo,Misc,Sub,a|b\nM[amount>200][month=6],June,Misc,,\nM,Plain,Misc,,\n',
    'nocat': HDR + 'FOO,Foo,,,\nBAR,Bar,Cat,,\nFOO,Foo2,Cat2,,t\n',
    'names': HDR + 'XX,Name ] odd,Cat: x,Sub,\nYY,A B  C,Cat,,t1| t2 \nZZ,Depot (Reno),Rental Property #2,Unit #4 Repairs,gifts # holiday\n',
    # separators that str.splitlines() honours but the CSV reader and a split on newline do not (form feed from PDF exports, FS/GS/RS, VT; NEL and U+2028 from pasted text)
    'ctrlnames': HDR + 'FF,Form\x0cFeed,Cat\x0bV,Sub\x1cF,t\x1dg\nRS,Rec\x1eSep,Cat,,\nFF,Plain,Cat,,\n',
    'uninames': HDR + 'NL,Next\x85Line,Cat\u2028LS,Sub\u2029PS,tag\nNL,Plain,Cat,,\n',
    'reversed': HDR + 'REV[amount:200-50],Rev,Misc,,\nREVD[date:2024-08-31..2024-08-01],RevD,Misc,,r\nREV,Plain,Misc,,\nREVD,PlainD,Misc,,\n',      # ranges written high-to-low
    'interleaved': HDR + 'LYFT,Lyft,Transport,Ride,\nUBER\\s*EATS,Uber Eats,Food,Delivery,\nUBER,Uber,Transport,Ride,\nCOSTCO,Costco,Shopping,,\n\\bGAS\\b,Gas,Transport,Fuel,\n',
}
_PATHS = {}


def path_for(name):
    if name not in _PATHS:
        d = tempfile.mkdtemp(prefix='verif_c14_')
        p = os.path.join(d, 'merchant_categories.csv')
        with open(p, 'w') as f:
            f.write(CSV_FILES[name])
        _PATHS[name] = p
    return _PATHS[name]


def migrated_engine(name):
    from tally.merchant_utils import load_merchant_rules
    from tally.merchant_engine import csv_to_merchants_content, parse_merchants
    rules = load_merchant_rules(path_for(name))
    return parse_merchants(csv_to_merchants_content(rules)), rules


# ---------------------------------------------------------------------------------- (a) preservation
def preservation(name):
    class Q:
        def query(self):
            ok, why = self._run()
            r = {'solver_queries': 0, 'solver_time_s': 0.0, 'paths': 1, 'extra': {'decided_by': 'direct comparison of constants (no solver)'}}
            if ok:
                r.update({'status': 'CONFIRMED', 'message': why})
            else:
                r.update({'status': 'REFUTED', 'args': {}, 'message': why})
            return r

        def _run(self):
            import ast
            import sys
            sys.path.insert(0, REPO_SRC)
            from tally import expr_parser
            from tally.merchant_engine import MerchantParseError
            reset_tally_caches()
            try:
                eng, rules = migrated_engine(name)
            except MerchantParseError as e:
                return False, 'generated file does not load: %s' % e
            effective = [r for r in rules if (r[2] or r[5])]      # rows without category and tags have no effect and are not migrated
            if len(eng.rules) != len(effective):
                return False, 'rule count %d != %d CSV rows' % (len(eng.rules), len(effective))
            n = 0
            for mr, row in zip(eng.rules, effective):
                pattern, merchant, category, sub, parsed, tags = row
                if (mr.name, mr.category, mr.subcategory) != (merchant, category, sub):
                    return False, 'names differ: %r vs %r' % ((mr.name, mr.category, mr.subcategory), (merchant, category, sub))
                if {t.strip().lower() for t in mr.tags} != {t.lower() for t in tags}:
                    return False, 'tags differ for %s: %r vs %r' % (merchant, mr.tags, tags)
                tree = expr_parser.parse_expression(mr.match_expr)
                consts = [x.value for x in ast.walk(tree) if isinstance(x, ast.Constant)]
                strs = [c for c in consts if isinstance(c, str)]
                nums = [float(c) for c in consts if isinstance(c, (int, float)) and not isinstance(c, bool)]
                if pattern and pattern not in strs:
                    return False, 'regex of %s not preserved: CSV %r, migrated constants %r' % (merchant, pattern, strs)
                for c in parsed.amount_conditions:
                    for v in (c.value, c.min_value, c.max_value):
                        if v is not None and float(v) not in nums:
                            return False, 'amount threshold %r of %s not preserved: %r' % (v, merchant, nums)
                for c in parsed.date_conditions:
                    for v in (c.value, c.start_date, c.end_date):
                        if v is not None and v.isoformat() not in strs:
                            return False, 'date %s of %s not preserved' % (v, merchant)
                    if c.month is not None and float(c.month) not in nums:
                        return False, 'month %r not preserved' % c.month
                n += 1
            return True, '%d rules: names, tags, regex and numeric/date constants preserved' % n

        def __call__(self, **kw):
            return self._run()[0]
    return Q()


# ---------------------------------------------------------------------------------- (b) matching equivalence
PATTERNS = ['NETFLIX', 'UBER\\s(?!EATS)', '^SQ', '(UBER|LYFT)', 'A and B', 'C.O', '[0-9]+A', 'a?b+', 'x$', 'JOE"S', "IT'S", 'A,B', '\\d{2}']
DLEN = 3


def matching(i):
    pat = PATTERNS[i]

    def ob(desc: str) -> bool:
        """
        pre: len(desc) <= DLEN
        post: _
        """
        import re
        from tally import expr_parser
        from tally import merchant_engine as _me
        need(hasattr(_me, '_regex_call'), 'merchant_engine._regex_call is gone: the literal the migration writes for a pattern cannot be obtained on its own')
        _regex_call = _me._regex_call
        reset_tally_caches()
        legacy = bool(re.search(pat, desc.upper(), re.IGNORECASE))
        expr = _regex_call(pat)
        migrated = expr_parser.matches_transaction(expr, {'description': desc, 'amount': 1})
        return post(legacy == migrated)
    return ob


# ---------------------------------------------------------------------------------- (c) whole-file equivalence
class _ReShim:
    def __init__(self, truth):
        import re as _re
        self._re = _re
        self._truth = truth
        self.IGNORECASE = _re.IGNORECASE
        self.error = _re.error

    def search(self, pattern, text, flags=0):
        if pattern in self._truth:
            return self._truth[pattern]
        return self._re.search(pattern, text, flags)

    def __getattr__(self, name):
        return getattr(self._re, name)


class _Compiled:
    def __init__(self, v):
        self.v = v

    def search(self, text):
        return self.v


def whole_file(name):
    path = path_for(name)

    def ob(b0: bool, b1: bool, b2: bool, b3: bool, b4: bool, b5: bool, amount: float, y: int, m: int, d: int) -> bool:
        """
        pre: -10000000.0 < amount < 10000000.0 and 2024 <= y <= 2025 and 1 <= m <= 12 and 1 <= d <= 28
        post: _
        """
        from datetime import date
        from tally import merchant_utils, expr_parser
        reset_tally_caches()
        eng, rows = migrated_engine(name)
        legacy_rules = merchant_utils.get_all_rules(path)
        bs = [b0, b1, b2, b3, b4, b5]
        pats = []
        for r in rows:
            if r[0] not in pats:
                pats.append(r[0])
        truth = {p: bs[i % 6] for i, p in enumerate(pats)}
        dt = date(y, m, d)
        real_re = merchant_utils.re
        merchant_utils.re = _ReShim(truth)
        try:
            lm, lc, ls, linfo = merchant_utils.normalize_merchant('PROBE', legacy_rules, amount=amount, txn_date=dt, data_source='S')
        finally:
            merchant_utils.re = real_re
        for p, v in truth.items():
            expr_parser._regex_cache[p] = _Compiled(v)
        res = eng.match({'description': 'PROBE', 'amount': amount, 'date': dt, 'source': 'S'})
        ltags = set(linfo['tags']) if linfo else set()
        if lc == 'Unknown':
            ok = (not res.matched)
        else:
            ok = res.matched and (res.merchant, res.category, res.subcategory) == (lm, lc, ls)
        return post(ok and set(res.tags) == ltags)
    return ob


def relative_date():
    """Known finding: [date:lastNdays] cannot be expressed in a .rules condition; the migration drops it."""
    class Q:
        def query(self):
            ok = self()
            r = {'solver_queries': 0, 'solver_time_s': 0.0, 'paths': 1}
            if ok:
                r.update({'status': 'CONFIRMED', 'message': 'relative date modifier preserved'})
            else:
                r.update({'status': 'REFUTED', 'args': {}, 'message': 'a 25-year-old transaction matches NEWS[date:last30days] after migration but not before'})
            return r

        def __call__(self, **kw):
            import sys
            from datetime import date
            sys.path.insert(0, REPO_SRC)
            from tally import merchant_utils
            reset_tally_caches()
            CSV_FILES['relative'] = HDR + 'NEWS[date:last30days],News,Media,,\n'
            try:
                eng, rows = migrated_engine('relative')
            except Exception:
                return False
            legacy = merchant_utils.normalize_merchant('NEWS', merchant_utils.get_all_rules(path_for('relative')), amount=5.0, txn_date=date(2000, 1, 1))
            res = eng.match({'description': 'NEWS', 'amount': 5.0, 'date': date(2000, 1, 1)})
            return (legacy[1] != 'Unknown') == bool(res.matched)
    return Q()


def obligations(tier, seed):
    q = tier == 'quick'
    obs = [Obligation(id='known-relative-date', factory='relative_date', engine='smt', twin=False, timeout=60, kind='known',
                      known_key='C14:relative-date-dropped', group='known findings', bounds='CSV row NEWS[date:last30days]; transaction dated 2000-01-01')]
    for name in CSV_FILES:
        obs.append(Obligation(id=f'preserve-{name}', factory='preservation', params={'name': name}, engine='smt', twin=False, timeout=60,
                              group='(a) constants preserved', bounds=f'CSV file {name!r} ({CSV_FILES[name].count(chr(10)) - 1} lines)'))
    for i, p in enumerate(PATTERNS):
        obs.append(Obligation(id=f'match-{i:02d}', factory='matching', params={'i': i}, timeout=120 if q else 900, group='(b) regex matching equivalence',
                              bounds=f'pattern {p!r}; description <= 3 ASCII chars'))
    for name in CSV_FILES:
        obs.append(Obligation(id=f'file-{name}', factory='whole_file', params={'name': name}, reals=True, timeout=150 if q else 900,
                              group='(c) whole-file equivalence', bounds=f'CSV file {name!r}: regex truth vector, amount (exact real) and date symbolic'))
    return obs
