"""C06 - totals conserve money: each transaction is counted once, in exactly one bucket."""
import time
from engine.ob import REPO_SRC  # noqa: E402
from engine.ob import Obligation, post

LEVEL = 'other'
EXPLANATION = ('(1) Engine B: classification.py\'s bucket functions are translated to z3 from the current source and compared, '
               'for every IEEE double and every tag list within the bounds, with a specification written from the property '
               '(precedence income > investment > transfer > sign; exactly the dictated bucket holds |amount|). '
               '(2) Engine A: the real analyze_transactions runs under CrossHair in inductive-step style - a concrete list plus '
               'ONE transaction with a symbolic exact-real amount inserted at a symbolic position; every total must change by '
               'exactly the increment the specification dictates, wherever it is inserted; two symbolic transactions may be '
               'swapped or split across sources without changing any figure.')
FUNCTIONS = ['classification.categorize_amount', 'classification.normalize_amount', 'classification.is_excluded_from_spending',
             'classification.calculate_cash_flow', 'classification.calculate_transfers_net', 'analyzer.analyze_transactions']
BOUNDS = ('(1) all doubles x (null or <= 3 tags of <= 10 ASCII chars; thorough: <= 8 tags of <= 24); (2) base lists of 0-3 concrete transactions, one or two '
          'symbolic transactions (exact-real amount, tag list from an enumerated family, merchant/category/month shared or new)')
OUTSIDE = 'float rounding of sums (amounts are exact reals in (2)); non-ASCII tags; lists that cannot be built by the enumerated insertions'
STUBS = ['(2) format(<symbolic number>, spec) returns "<num>" (calc_formula text is not asserted on)',
         '(2) x ** 0.5 of a symbolic number returns a fresh non-negative real (cv is not asserted on)']
TRUSTED = ['engine/smt/symexec.py translator (validated in C13)']
ASSUMPTIONS = ['amounts are exact reals in the accumulation obligations, finite and |amount| < 1e9 (C05 guarantees finite amounts)', 'tags are ASCII strings']

PY = REPO_SRC + '/tally/classification.py'
KEYS = ['income', 'investment', 'transfer_in', 'transfer_out', 'spending', 'credits']


# ------------------------------------------------------------------------------------- (1) Engine B
class BucketSpec:
    def __init__(self, what, k=3, l=10):
        self.what, self.k, self.l = what, k, l

    def query(self):
        from engine.smt import symexec as S
        try:
            return self._query()
        except S.Unsupported as e:
            # the current source uses a construct the translator cannot encode: the solver cannot decide.  A reproduced
            # disagreement with the specification on a fixed grid is still a violation; none found => inconclusive (stated in the evidence).
            import itertools
            nan = float('nan')
            specials = ['income', 'INCOME', 'Transfer', 'investment', 'InVestment']
            alike = ['incomes', 'income-tax', 'xincome', 'reinvestment', 'transferwise', ' transfer', 'food', '']
            lists = [None, []] + [[t] for t in specials + alike] + [list(p) for p in itertools.permutations(['income', 'transfer', 'investment'], 2)]
            lists += [[a, 'food'] for a in specials] + [['food', a] for a in alike]
            for a in (-2.5, -0.0, 0.0, 3.0, nan, 0.125, -1.115, 2.675, 0.015, 1e-9, -1e15):
                for t in lists:
                    if self.what == 'flows':
                        continue
                    if not self(amount=a, tags=t):
                        return {'status': 'REFUTED', 'args': {'amount': a, 'tags': t}, 'solver_queries': 0, 'solver_time_s': 0.0, 'paths': 0,
                                'message': 'translator: %s; disagreement with the specification found on the fallback grid' % e,
                                'extra': {'translator_unsupported': str(e), 'decided_by': 'fallback grid (not the solver)'}}
            # nothing found: the solver could not decide and the grid is no proof => inconclusive, said so
            return {'status': 'UNKNOWN', 'solver_queries': 0, 'solver_time_s': 0.0, 'paths': 0,
                    'message': 'translator cannot encode the current source (%s); the fallback grid found no disagreement with the specification: inconclusive' % e,
                    'extra': {'translator_unsupported': str(e), 'decided_by': 'nothing (fallback grid silent)'}}

    def _query(self):
        import z3
        from engine.smt import symexec as S
        py = S.PyModule(PY)
        amount, tags, cons = S.sym_inputs(self.k, self.l)
        s = z3.Solver()
        s.set('timeout', 240000)
        s.add(*cons)

        def has(word):
            return z3.Or(*[z3.And(g, it.lower().eq_const(word)) for g, it in tags.guarded_items()])
        inc, inv, tr = has('income'), has('investment'), has('transfer')
        pos = z3.fpGT(amount, z3.FPVal(0.0, S.F64))
        absa = z3.fpAbs(amount)
        zero = z3.FPVal(0.0, S.F64)
        spec = {
            'income': z3.If(inc, absa, zero),
            'investment': z3.If(z3.And(z3.Not(inc), inv), absa, zero),
            'transfer_in': z3.If(z3.And(z3.Not(inc), z3.Not(inv), tr, pos), absa, zero),
            'transfer_out': z3.If(z3.And(z3.Not(inc), z3.Not(inv), tr, z3.Not(pos)), absa, zero),
            'spending': z3.If(z3.And(z3.Not(inc), z3.Not(inv), z3.Not(tr), pos), absa, zero),
            'credits': z3.If(z3.And(z3.Not(inc), z3.Not(inv), z3.Not(tr), z3.Not(pos)), absa, zero),
        }
        if self.what == 'buckets':
            got = py.call('categorize_amount', [amount, tags])
            if sorted(got) != sorted(KEYS):
                return {'status': 'REFUTED', 'args': {'amount': 1.0, 'tags': []}, 'message': 'bucket keys %s' % sorted(got)}
            s.add(z3.Or(*[z3.Not(S.same_number(got[k], spec[k])) for k in KEYS]))
        elif self.what == 'one-bucket':
            # derived statement of the property: for a finite non-zero amount exactly one bucket is non-zero and it holds |amount|
            got = py.call('categorize_amount', [amount, tags])
            nz = [z3.If(z3.fpIsZero(S.fp(got[k])), 0, 1) for k in KEYS]
            tot = got[KEYS[0]]
            s.add(z3.Not(z3.fpIsNaN(amount)), z3.Not(z3.fpIsInf(amount)), z3.Not(z3.fpIsZero(amount)))
            s.add(z3.Or(z3.Sum(nz) != 1, z3.Not(z3.Or(*[z3.fpEQ(S.fp(got[k]), absa) for k in KEYS]))))
        elif self.what == 'normalize':
            got = py.call('normalize_amount', [amount, tags])
            s.add(z3.Not(S.same_number(got, z3.If(z3.Or(inc, inv), absa, amount))))
        elif self.what == 'excluded':
            got = py.call('is_excluded_from_spending', [tags])
            s.add(got != z3.Or(inc, inv, tr))
        elif self.what == 'flows':
            a, b, c = (z3.FP(n, S.F64) for n in ('i', 's', 'c'))
            g1 = py.call('calculate_cash_flow', [a, b, c])
            g2 = py.call('calculate_transfers_net', [a, b])
            s.add(z3.Or(z3.Not(S.same_number(g1, z3.fpAdd(S.RNE, z3.fpSub(S.RNE, a, b), c))),
                        z3.Not(S.same_number(g2, z3.fpSub(S.RNE, a, b)))))
        ts = time.time()
        r = str(s.check())
        res = {'solver_queries': 1, 'solver_time_s': round(time.time() - ts, 3), 'paths': 1}
        if r == 'unsat':
            res.update({'status': 'CONFIRMED', 'message': 'unsat'})
        elif r == 'sat':
            m = s.model()
            if self.what == 'flows':
                import struct
                vals = []
                for v in (a, b, c):
                    bv = m.eval(z3.fpToIEEEBV(m.eval(v, model_completion=True)), model_completion=True).as_long()
                    vals.append(struct.unpack('<d', struct.pack('<Q', bv))[0])
                res.update({'status': 'REFUTED', 'args': {'amount': vals[0], 'tags': None, 'triple': vals}, 'message': 'sat'})
            else:
                am, tg = S.model_inputs(m, amount, tags)
                res.update({'status': 'REFUTED', 'args': {'amount': am, 'tags': tg}, 'message': 'sat'})
        else:
            res.update({'status': 'UNKNOWN', 'message': 'solver: unknown'})
        return res

    def __call__(self, amount, tags, triple=None):
        """Concrete replay on the real functions against the same specification, in plain Python."""
        import importlib
        import math
        import sys
        sys.path.insert(0, REPO_SRC)
        cl = importlib.import_module('tally.classification')

        def same(x, y):
            x, y = float(x), float(y)
            return x == y or (math.isnan(x) and math.isnan(y))
        if self.what == 'flows':
            a, b, c = triple
            return same(cl.calculate_cash_flow(a, b, c), (a - b) + c) and same(cl.calculate_transfers_net(a, b), a - b)
        low = [t.lower() for t in (tags or [])]
        inc, inv, tr = 'income' in low, 'investment' in low, 'transfer' in low
        if inc:
            b = 'income'
        elif inv:
            b = 'investment'
        elif tr:
            b = 'transfer_in' if amount > 0 else 'transfer_out'
        else:
            b = 'spending' if amount > 0 else 'credits'
        if self.what in ('buckets', 'one-bucket'):
            got = cl.categorize_amount(amount, tags)
            return sorted(got) == sorted(KEYS) and all(same(got[k], abs(amount) if k == b else 0.0) for k in KEYS)
        if self.what == 'normalize':
            return same(cl.normalize_amount(amount, tags), abs(amount) if (inc or inv) else amount)
        if self.what == 'excluded':
            return bool(cl.is_excluded_from_spending(tags)) == (inc or inv or tr)
        return True


def spec(what, k=3, l=10):
    return BucketSpec(what, k, l)


# ------------------------------------------------------------------------------------- (2) Engine A
TAGSETS = [[], ['income'], ['Transfer'], ['investment', 'transfer'], ['food'], ['INCOME', 'transfer'], ['Investment']]


def _txn(merchant, category, sub, month, amount, tags, year=2024, desc=None, day=3):
    from datetime import datetime
    return {'merchant': merchant, 'category': category, 'subcategory': sub, 'date': datetime(year, month, day),
            'amount': amount, 'tags': list(tags), 'description': desc or merchant, 'raw_description': (desc or merchant) + ' RAW',
            'source': 'S'}


def _bucket(amount_positive, tags):
    low = [t.lower() for t in tags]
    if 'income' in low:
        return 'income_total'
    if 'investment' in low:
        return 'investment_total'
    if 'transfer' in low:
        return 'transfers_in' if amount_positive else 'transfers_out'
    return 'spending_total' if amount_positive else 'credits_total'


FLOW_KEYS = ['income_total', 'investment_total', 'transfers_in', 'transfers_out', 'spending_total', 'credits_total']

BASES = {
    'empty': [],
    'one': [('M1', 'Cat', 'Sub', 3, 20.0, [])],
    'two-merchants': [('M1', 'Cat', 'Sub', 3, 20.0, ['food']), ('M2', 'Cat2', 'Sub2', 4, -7.5, ['transfer'])],
    'same-merchant-tagged': [('M1', 'Cat', 'Sub', 3, 20.0, ['income']), ('M1', 'Cat', 'Sub', 3, 5.0, [])],
    'three': [('M1', 'Cat', 'Sub', 3, 20.0, []), ('M2', 'Cat', 'Sub', 3, 30.0, ['investment']), ('M1', 'Cat', 'Sub', 5, -4.0, ['Income'])],
    # the same month number in two different years, not in date order (two exports concatenated)
    'two-years': [('M1', 'Cat', 'Sub', 12, 20.0, [], 2025), ('M2', 'Cat', 'Sub', 12, 30.0, [], 2024), ('M1', 'Cat', 'Sub', 1, 5.0, [], 2025)],
}


def increment(base, tagset, where):
    """where: 'same' (merchant M1, category Cat/Sub, month 3) | 'newmerchant' (M9, same category, month 3) |
    'newall' (M9, Cat9, month 7) | 'newmonth' (M1, month 8 - needs sqrt_free) | 'newcat' / 'newsub' (merchant M1 again, under another
    category / subcategory: one merchant name reached through two rules)"""
    tags = TAGSETS[tagset]
    merchant, cat, sub, month = {'same': ('M1', 'Cat', 'Sub', 3), 'newmerchant': ('M9', 'Cat', 'Sub', 3),
                                 'newall': ('M9', 'Cat9', 'Sub9', 7), 'newmonth': ('M1', 'Cat', 'Sub', 8), 'otheryear': ('M1', 'Cat', 'Sub', 12),
                                 'newcat': ('M1', 'Cat9', 'Sub9', 3), 'newsub': ('M1', 'Cat', 'Sub9', 4)}[where]
    year = 2024        # 'otheryear': December 2024 next to the base list's December 2025
    base_txns = BASES[base]

    def ob(amount: float, pos: int) -> bool:
        """
        pre: 0 <= pos <= 3 and -1000000000.0 < amount < 1000000000.0
        post: _
        """
        from tally.analyzer import analyze_transactions
        lst = [_txn(*b) for b in base_txns]
        if pos > len(lst):
            pos = len(lst)
        s0 = analyze_transactions([dict(t) for t in lst])
        t = _txn(merchant, cat, sub, month, amount, tags, year)
        lst1 = lst[:pos] + [t] + lst[pos:]
        s1 = analyze_transactions([dict(x) for x in lst1])
        absa = amount if amount >= 0 else -amount
        eff = absa if _bucket(True, tags) in ('income_total', 'investment_total') else amount
        bucket = _bucket(amount > 0, tags)
        ok = True
        for k in FLOW_KEYS:
            ok = ok and s1[k] == s0[k] + (absa if k == bucket else 0)
        ok = ok and s1['cash_flow'] == s1['income_total'] - s1['spending_total'] + s1['credits_total']
        ok = ok and s1['transfers_net'] == s1['transfers_in'] - s1['transfers_out']
        ok = ok and s1['count'] == s0['count'] + 1 and s1['total'] == s0['total'] + amount
        m0 = s0['by_merchant'].get(merchant, {'total': 0, 'count': 0})
        m1 = s1['by_merchant'][merchant]
        ok = ok and m1['total'] == m0['total'] + eff and m1['count'] == m0['count'] + 1
        c0 = s0['by_category'].get((cat, sub), {'total': 0, 'count': 0})
        c1 = s1['by_category'][(cat, sub)]
        ok = ok and c1['total'] == c0['total'] + eff and c1['count'] == c0['count'] + 1
        mk = '%d-%02d' % (year, month)
        ok = ok and s1['by_month'][mk] == s0['by_month'].get(mk, 0) + eff
        # everything that does not belong to the new transaction is untouched
        for name, d in s0['by_merchant'].items():
            if name != merchant:
                ok = ok and s1['by_merchant'][name]['total'] == d['total'] and s1['by_merchant'][name]['count'] == d['count']
        for key, d in s0['by_category'].items():
            if key != (cat, sub):
                ok = ok and s1['by_category'][key]['total'] == d['total'] and s1['by_category'][key]['count'] == d['count']
        for key, v in s0['by_month'].items():
            if key != mk:
                ok = ok and s1['by_month'][key] == v
        # the partitions add up to the same grand totals
        ok = ok and sum(d['count'] for d in s1['by_merchant'].values()) == s1['count']
        ok = ok and sum(d['count'] for d in s1['by_category'].values()) == s1['count']
        ok = ok and sum(d['total'] for d in s1['by_merchant'].values()) == sum(s1['by_month'].values())
        ok = ok and sum(d['total'] for d in s1['by_category'].values()) == sum(s1['by_month'].values())
        return post(ok)
    return ob


def _digest(s):
    return ([s[k] for k in FLOW_KEYS], s['cash_flow'], s['transfers_net'], s['count'], s['total'],
            sorted((k, v['total'], v['count'], v['max_payment']) for k, v in s['by_merchant'].items()),
            sorted((k, v['total'], v['count']) for k, v in s['by_category'].items()),
            sorted(s['by_month'].items()))


def permutation(base, tagset1, tagset2, ycat='Cat'):
    """Two symbolic transactions on the same merchant and month: any order, and any split of the list into two
    'sources' concatenated either way, gives the same figures."""
    t1, t2 = TAGSETS[tagset1], TAGSETS[tagset2]
    base_txns = BASES[base]

    def ob(a1: float, a2: float) -> bool:
        """
        pre: -1000000000.0 < a1 < 1000000000.0 and -1000000000.0 < a2 < 1000000000.0
        post: _
        """
        from tally.analyzer import analyze_transactions
        lst = [_txn(*b) for b in base_txns]
        x = _txn('M1', 'Cat', 'Sub', 3, a1, t1, desc='X')
        y = _txn('M1', ycat, 'Sub', 3, a2, t2, desc='Y')
        orders = [lst + [x, y], lst + [y, x], [x] + lst + [y], [y, x] + lst, [y] + lst + [x]]
        ref = _digest(analyze_transactions([dict(t) for t in orders[0]]))
        ok = True
        for o in orders[1:]:
            ok = ok and _digest(analyze_transactions([dict(t) for t in o])) == ref
        return post(ok)
    return ob


def obligations(tier, seed):
    q = tier == 'quick'
    k, l = (3, 10) if q else (8, 24)
    obs = []
    for what in ['buckets', 'one-bucket', 'normalize', 'excluded', 'flows']:
        obs.append(Obligation(id=f'spec-{what}', factory='spec', params={'what': what, 'k': k, 'l': l}, engine='smt', twin=False, timeout=300,
                              group='bucket specification (Engine B)',
                              bounds=f'all doubles x (null or <= {k} tags of <= {l} ASCII chars)'))
    combos = [('one', 1, 'same'), ('two-merchants', 2, 'newmerchant'), ('same-merchant-tagged', 0, 'same'), ('same-merchant-tagged', 3, 'same'),
              ('three', 5, 'same'), ('empty', 4, 'newall'), ('three', 6, 'newall'), ('one', 2, 'newmonth'), ('three', 0, 'newmonth'),
              ('one', 0, 'same'), ('one', 3, 'newmerchant'), ('two-merchants', 1, 'same'), ('two-merchants', 6, 'newmonth'),
              ('same-merchant-tagged', 2, 'same'), ('same-merchant-tagged', 5, 'newall'), ('three', 1, 'newmerchant'), ('three', 2, 'same'),
              ('three', 4, 'newmonth'), ('empty', 0, 'same'), ('empty', 1, 'newall'), ('two-years', 0, 'otheryear'), ('two-years', 4, 'otheryear'), ('two-years', 1, 'newmonth'),
              ('one', 0, 'newcat'), ('three', 4, 'newcat'), ('same-merchant-tagged', 0, 'newsub'), ('three', 1, 'newsub')]
    if not q:
        combos = [(b, t, w) for b in BASES for t in range(len(TAGSETS)) for w in ['same', 'newmerchant', 'newall', 'newmonth', 'otheryear', 'newcat', 'newsub']]
    for (b, t, w) in combos:
        obs.append(Obligation(id=f'inc-{b}-t{t}-{w}', factory='increment', params={'base': b, 'tagset': t, 'where': w},
                              reals=True, opaque=True, sqrt_free=True, timeout=120 if q else 600, group='accumulation, inductive step',
                              bounds=f'base list {b} ({len(BASES[b])} concrete transactions) + one transaction with symbolic real amount, tags {TAGSETS[t]}, placement {w}, inserted at a symbolic position'))
    perms = [('one', 0, 1), ('two-merchants', 2, 4), ('empty', 3, 5), ('one', 2, 2), ('empty', 0, 6), ('two-merchants', 1, 3), ('two-years', 0, 4)] if q else [(b, i, j) for b in ['empty', 'one', 'two-merchants', 'two-years'] for i in range(len(TAGSETS)) for j in range(i, len(TAGSETS))]
    for (b, i, j) in [('one', 0, 4), ('two-merchants', 4, 0)]:
        obs.append(Obligation(id=f'perm2cat-{b}-t{i}-t{j}', factory='permutation', params={'base': b, 'tagset1': i, 'tagset2': j, 'ycat': 'Cat9'},
                              reals=True, opaque=True, sqrt_free=True, timeout=120 if q else 600, group='order and partition independence',
                              bounds=f'base list {b} + two transactions of ONE merchant under two categories, symbolic real amounts (tags {TAGSETS[i]} / {TAGSETS[j]}), 5 orders/splits'))
    for (b, i, j) in perms:
        obs.append(Obligation(id=f'perm-{b}-t{i}-t{j}', factory='permutation', params={'base': b, 'tagset1': i, 'tagset2': j},
                              reals=True, opaque=True, sqrt_free=True, timeout=120 if q else 600, group='order and partition independence',
                              bounds=f'base list {b} + two transactions with symbolic real amounts (tags {TAGSETS[i]} / {TAGSETS[j]}), 5 orders/splits'))
    return obs
