"""Rule-file templates with injectable constants and an independent first-match oracle.

A template is a .rules text whose match / let / variable expressions contain placeholder constants
("@P1".."@P4" strings, 9001..9006 numbers).  `load(template, values)` parses the text with tally's real
parser and then overwrites those constants in the cached expression trees with symbolic values, so the
real engine evaluates conditions whose patterns and thresholds are symbolic.

The oracle below is written from the property text and the user reference: global variables are evaluated
on their own (unevaluable ones are undefined), a rule's let bindings are evaluated in order on top of the
globals (an unevaluable binding is None), the rule matches iff its condition is true in that environment
(an unevaluable condition does not match), and the first matching rule with a category decides.  Rule
conditions are evaluated one at a time through the public matches_transaction - that they mean what the
reference says is C04's subject.
"""
import ast
from engine.ob import inject

PLACEHOLDER_STR = ['@P1', '@P2', '@P3', '@P4']
PLACEHOLDER_NUM = [9001, 9002, 9003, 9004, 9005, 9006]


def parse_template(text, mode='first_match'):
    from tally.merchant_engine import parse_merchants
    return parse_merchants(text, match_mode=mode)


def all_expressions(engine):
    out = []
    for name, e in engine.variables.items():
        out.append(e)
    for _, e in engine.transforms:
        out.append(e)
    for r in engine.rules:
        out.append(r.match_expr)
        for _, e in r.let_bindings:
            out.append(e)
        for e in r.fields.values():
            out.append(e)
        for t in r.tags:
            t = t.strip()
            if t.startswith('{') and t.endswith('}') and t[1:-1].strip():
                out.append(t[1:-1].strip())
    return out


def load(text, values, mode='first_match'):
    """Parse with the real parser, then inject (possibly symbolic) constants into every cached tree."""
    eng = parse_template(text, mode)
    for e in all_expressions(eng):
        inject(e, values)
    return eng


def oracle_env(engine, txn, data_sources=None):
    from tally import expr_parser
    env = {}
    for name, e in engine.variables.items():
        try:
            env[name] = expr_parser.evaluate_transaction(e, txn, data_sources=data_sources)
        except expr_parser.ExpressionError:
            pass
    return env


def oracle_rule_matches(rule, txn, genv, data_sources=None):
    from tally import expr_parser
    env = dict(genv)
    for name, e in rule.let_bindings:
        try:
            env[name] = expr_parser.evaluate_transaction(e, txn, variables=dict(env), data_sources=data_sources)
        except expr_parser.ExpressionError:
            env[name] = None
    try:
        return bool(expr_parser.evaluate_transaction(rule.match_expr, txn, variables=env, data_sources=data_sources))
    except expr_parser.ExpressionError:
        return False


def oracle_first_match(engine, txn, data_sources=None):
    genv = oracle_env(engine, txn, data_sources)
    winner = None
    truth = []
    for r in engine.rules:
        m = oracle_rule_matches(r, txn, genv, data_sources)
        truth.append(m)
        if m and winner is None and r.category != '':
            winner = r
    return winner, truth


def oracle_first_match_ref(engine, txn, values, data_sources=None):
    """The same oracle, with every expression evaluated by the independent reference interpreter (harness/ref.py) from the
    expression SOURCE text - no tally code decides whether a condition is true."""
    from harness import ref
    genv = {}
    for name, e in engine.variables.items():
        try:
            genv[name] = ref.ref_eval_src(e, txn, data_sources=data_sources, values=values)      # globals are evaluated on their own
        except ref.RefError:
            pass
    winner = None
    truth = []
    for r in engine.rules:
        env = dict(genv)
        for name, e in r.let_bindings:
            try:
                env[name] = ref.ref_eval_src(e, txn, variables=dict(env), data_sources=data_sources, values=values)
            except ref.RefError:
                env[name] = None
        try:
            m = bool(ref.ref_eval_src(r.match_expr, txn, variables=env, data_sources=data_sources, values=values))
        except ref.RefError:
            m = False
        truth.append(m)
        if m and winner is None and r.category != '':
            winner = r
    return winner, truth


# ------------------------------------------------------------------------------------------- templates
# Small files (2-3 rules): how N rules shadow each other is the truth-vector core's subject; these files check
# that conditions, global variables and let bindings are wired into the selection as the reference says.
T_VARS1 = '''
big = amount > 9001

[A]
match: contains("@P1") and big
category: CA

[C]
match: big
category: CC
subcategory: SC
'''

T_VARS2 = '''
big = amount > 9001

[Tag]
match: startswith("@P2")
tags: t

[B]
let: lim = 9002
match: amount < lim or source == "@P3"
category: CB
subcategory: SB

[C]
match: not big
category: CC
'''

T_LETSHADOW = '''
limit = 9001

[P]
let: limit = 9002
match: amount > limit and contains("@P1")
category: CP

[TagOnly]
let: extra = 9003
match: amount > extra
tags: large

[L]
match: amount > limit
category: CL
subcategory: SL

[Z]
match: amount > 0 or amount <= 0
category: CZ
'''

T_LETSHADOW2 = '''
limit = 9001

[P]
let: limit = 9002
let: only_here = 9003
match: amount > limit and contains("@P1")
category: CP

[L]
match: amount > limit
category: CL
subcategory: SL

[O]
match: amount > only_here
category: CO
'''

T_DATES1 = '''
[Dec]
match: month == 9001 and date >= "2024-12-05"
category: CDec

[Weekend]
match: weekday >= 5
tags: weekend

[Rest]
match: date <= "2025-06-30"
category: CRest
'''

T_DATES2 = '''
[Y]
match: year == 9002 or day < 9003
category: CY
subcategory: SY

[W]
match: weekday == 9001
category: CW
'''

T_FIELDS1 = '''
[F1]
match: field.k == "@P1"
category: CF1

[F2]
match: contains(field.k, "@P2") and not contains("@P3")
category: CF2
subcategory: SF2
'''

T_FIELDS2 = '''
[T]
match: exists(field.missing) or "@P3" in description
tags: seen

[F3]
match: source != "@P4"
category: CF3

[F4]
match: exists(field.k)
category: CF4
'''

T_FUNCS1 = '''
[N]
match: anyof("@P1", "@P2")
category: CN

[R]
match: regex("A.B") or startswith("@P3")
category: CR
subcategory: SR
'''

T_FUNCS2 = '''
[U]
match: unknown_name > 3
category: CU

[S]
match: amount >= 9001 and amount <= 9002
category: CS

[N2]
match: normalized("@P1")
category: CN2
'''

T_SRCVARS = '''
from_card = source == "@P3"
is_wire = field.k == "@P4"
pricey = amount > 9001

[Card]
match: from_card and contains("@P1")
category: CCard

[Wire]
match: is_wire and not pricey
category: CWire
subcategory: SWire

[CardBig]
match: from_card and pricey
category: CBig

[Rest]
match: startswith("@P2")
category: CRest
'''

T_CHAIN = '''
mid = 9001 < amount <= 9002

[Low]
match: 0 < amount <= 9001
category: CLow

[Mid]
match: mid
category: CMid
subcategory: SMid

[High]
match: 9002 < amount
category: CHigh
'''

T_FAIL = '''
v = field.nope

[E1]
match: v == "@P1"
category: CE1

[E2]
let: w = amount / 0
match: w == 0 and contains("@P1")
category: CE2

[E3]
match: amount > "@P2"
category: CE3

[E4]
match: contains("@P3")
category: CE4
subcategory: SE4
'''

TEMPLATES = {'vars1': T_VARS1, 'vars2': T_VARS2, 'letshadow': T_LETSHADOW, 'letshadow2': T_LETSHADOW2, 'dates1': T_DATES1, 'dates2': T_DATES2,
             'fields1': T_FIELDS1, 'fields2': T_FIELDS2, 'funcs1': T_FUNCS1, 'funcs2': T_FUNCS2, 'fail': T_FAIL, 'chain': T_CHAIN, 'srcvars': T_SRCVARS}


# ------------------------------------------------------------------------------------------- generated templates
GLOBALS_POOL = ['big = amount > 9001', 'small = amount < 9002', 'is_src = source == "@P3"', 'lim = 9003', 'broken = field.nope']
BLOCKS_POOL = [
    # (header lines after [Name], uses)
    ('match: contains("@P1")\ncategory: C{i}', ''),
    ('match: startswith("@P2") and amount > 9001\ncategory: C{i}\nsubcategory: S{i}', ''),
    ('match: big\ncategory: C{i}', 'big'),
    ('match: not big and contains("@P1")\ncategory: C{i}\nsubcategory: S{i}', 'big'),
    ('match: small or is_src\ncategory: C{i}', 'small is_src'),
    ('let: lim = 9002\nmatch: amount > lim\ncategory: C{i}', ''),
    ('match: amount > lim\ncategory: C{i}\nsubcategory: S{i}', 'lim'),
    ('let: a = amount + 9003\nlet: b = a * 2\nmatch: b > 9001\ncategory: C{i}', ''),
    ('match: amount > 9003\ntags: t{i}', ''),
    ('match: contains("@P2")\ntags: u{i}, {{source}}', ''),
    ('match: field.k == "@P4"\ncategory: C{i}', ''),
    ('match: "@P1" in description and source != "@P3"\ncategory: C{i}', ''),
    ('match: anyof("@P1", "@P2")\ncategory: C{i}\nsubcategory: S{i}', ''),
    ('match: broken == "x"\ncategory: C{i}', 'broken'),
    ('match: amount > "@P1"\ncategory: C{i}', ''),
    ('match: exists(field.k) and amount <= 9002\ncategory: C{i}', ''),
    ('let: w = extract("(A)")\nmatch: w == "A" or amount == 9001\ncategory: C{i}', ''),
    ('match: 9001 < amount < 9002\ncategory: C{i}\nsubcategory: S{i}', ''),
]


def generated(k, seed, nblocks=(2, 3)):
    """k rule files composed of 2-3 random blocks plus the global variables they use (and sometimes an unused one)."""
    import random
    rng = random.Random(100 + seed)
    out = {}
    for j in range(k):
        n = rng.choice(nblocks)
        blocks = [rng.choice(BLOCKS_POOL) for _ in range(n)]
        uses = set(' '.join(b[1] for b in blocks).split())
        globs = [g for g in GLOBALS_POOL if g.split(' = ')[0] in uses]
        if rng.random() < 0.3:
            globs.append(rng.choice(GLOBALS_POOL))
        globs = list(dict.fromkeys(globs))
        rng.shuffle(globs)
        text = '\n'.join(globs) + '\n\n'
        for i, (body, _) in enumerate(blocks):
            text += f'[R{i}]\n' + body.format(i=i) + '\n\n'
        out[f'gen{j:03d}'] = text
    return out
