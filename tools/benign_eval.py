#!/usr/bin/env python3
"""usage: benign_eval.py <dir with <name>/patch.diff ...> [names...]
For each property-PRESERVING change (name = <Cxx>-<letter>): applies it to a scratch worktree of /repo HEAD, runs the quick check of
that property against the copy and records whether the check stayed silent (exit 0, no VIOLATION, no harness error).
Results: benign/RESULTS.json.  The worktree is removed afterwards."""
import json, os, subprocess, sys, time
ROOT = os.path.dirname(os.path.dirname(os.path.abspath(__file__)))
src = os.path.abspath(sys.argv[1])
want = sys.argv[2:]
names = sorted(n for n in os.listdir(src) if os.path.exists(os.path.join(src, n, 'patch.diff')))
if want:
    names = [n for n in names if any(n == w or n.startswith(w + '-') for w in want)]
os.makedirs(os.path.join(ROOT, 'benign'), exist_ok=True)
res_path = os.path.join(ROOT, 'benign', 'RESULTS.json')
results = json.load(open(res_path)) if os.path.exists(res_path) else {}
head = subprocess.run('git -C /repo rev-parse --short HEAD', shell=True, capture_output=True, text=True).stdout.strip()
for n in names:
    pid = n.split('-')[0]
    wt = f'/tmp/benigneval_{n}'
    subprocess.run(f'git -C /repo worktree remove --force {wt}', shell=True, capture_output=True)
    subprocess.run(f'git -C /repo worktree add -q --detach {wt} HEAD', shell=True, check=True)
    try:
        p = subprocess.run(['git', 'apply', os.path.join(src, n, 'patch.diff')], cwd=wt, capture_output=True, text=True)
        if p.returncode != 0:
            results[n] = {'property': pid, 'status': 'patch does not apply to ' + head, 'detail': p.stderr[-300:]}
            print(n, results[n]['status'])
            continue
        env = dict(os.environ, VERIF_REPO=wt, VERIF_EVIDENCE_DIR=wt + '/.verif_evidence')
        t0 = time.time()
        p = subprocess.run([os.path.join(ROOT, 'check'), pid, '--tier', 'quick'], cwd=ROOT, env=env, capture_output=True, text=True)
        out = p.stdout
        lines = [l for l in out.splitlines() if l.startswith(('VIOLATION', 'HARNESS-ERROR', '  obligation'))]
        summ = [l for l in out.splitlines() if l.startswith(pid + ' [')]
        results[n] = {'property': pid, 'exit': p.returncode, 'silent': p.returncode == 0 and not lines, 'summary': summ[-1] if summ else '',
                      'alarms': [l[:400] for l in lines[:12]], 'wall_s': round(time.time() - t0), 'repo_head': head}
        print(n, 'SILENT' if results[n]['silent'] else 'ALARM', 'exit', p.returncode, summ[-1][:140] if summ else out[-300:])
        for l in lines[:6]:
            print('   ', l[:300])
    finally:
        subprocess.run(f'git -C /repo worktree remove --force {wt}', shell=True, capture_output=True)
    json.dump(results, open(res_path, 'w'), indent=1, sort_keys=True)
