#!/bin/bash
# usage: tools/try_patch.sh <patch.diff> <Cxx> [more Cxx...]   (VERIF_TIER=quick|thorough)
# Applies the patch to /repo's working tree, runs the listed checks, reverts.
P="$(realpath "$1")"; shift
cd /repo || exit 9
git diff --quiet || { echo "repo dirty"; exit 9; }
git apply "$P" || { echo "patch does not apply"; exit 9; }
for c in "$@"; do
  (cd /verif && ./check "$c" --tier "${VERIF_TIER:-quick}" 2>&1 | grep -E "^(VIOLATION|HARNESS|KNOWN|C[0-9]+ \[)" | cut -c1-400)
  echo "  -> $c exit=$?"
done
git -C /repo checkout -- . ; git -C /repo status --short | head -3
