#!/usr/bin/env python3
"""usage: baseline_check.py <worktree>
Runs the pinned test command (/root/.vp/BASELINE.json) in <worktree> and checks that every one of the baseline's
stable_pass tests passes.  Prints 'N/701 baseline tests pass' and exits 0 iff all do."""
import json, os, subprocess, sys, tempfile, xml.etree.ElementTree as ET
wt = os.path.abspath(sys.argv[1])
base = json.load(open('/root/.vp/BASELINE.json'))
want = set(base['stable_pass'])
with tempfile.TemporaryDirectory() as td:
    xml = os.path.join(td, 'r.xml')
    env = dict(os.environ, PYTHONPATH=wt + '/src', PYTHONDONTWRITEBYTECODE='1')
    env.pop('TALLY_VERIF', None)
    subprocess.run(['/venv/bin/python', '-m', 'pytest', '-ra', '-q', '-p', 'no:cacheprovider', '--timeout=900',
                    '--continue-on-collection-errors', '--junitxml=' + xml], cwd=wt, env=env, capture_output=True, text=True)
    passed = set()
    if os.path.exists(xml):
        for tc in ET.parse(xml).getroot().iter('testcase'):
            if not any(ch.tag in ('failure', 'error', 'skipped') for ch in tc):
                passed.add(tc.get('classname', '') + '::' + tc.get('name', ''))
missing = sorted(want - passed)
print(f'{len(want) - len(missing)}/{len(want)} baseline tests pass')
for m in missing[:20]:
    print('  NOT PASSING:', m)
sys.exit(0 if not missing else 1)
