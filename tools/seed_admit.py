#!/usr/bin/env python3
"""usage: seed_admit.py <dir with patch.diff demo.py notes.md> <seed name> <property id>
Confirms a seeded change independently (scratch worktree of /repo HEAD under /tmp): patch applies, the pinned
701-test baseline still passes with it, the demo fails with it and passes without it.  Only then copies it to
/verif/seeded/<name>/ with meta.json.  The worktree is removed afterwards."""
import json, os, shutil, subprocess, sys, time
src, name, pid = sys.argv[1:4]
wt = f'/tmp/confirm_{name}'
def sh(cmd, **kw):
    return subprocess.run(cmd, shell=True, capture_output=True, text=True, **kw)
sh(f'git -C /repo worktree remove --force {wt}')
r = sh(f'git -C /repo worktree add -q --detach {wt} HEAD'); assert r.returncode == 0, r.stderr
ran = []
try:
    patch = os.path.abspath(os.path.join(src, 'patch.diff'))
    demo = os.path.abspath(os.path.join(src, 'demo.py'))
    r = sh(f'git apply {patch}', cwd=wt); ran.append(('git apply', r.returncode)); assert r.returncode == 0, 'patch does not apply: ' + r.stderr
    r = sh(f'/verif/tools/baseline_check.py {wt}'); ran.append(('baseline with patch', r.returncode, r.stdout.strip().splitlines()[0] if r.stdout else ''))
    assert r.returncode == 0, 'baseline fails: ' + r.stdout[-500:]
    r = sh(f'PYTHONPATH={wt}/src /venv/bin/python {demo}', cwd=os.path.dirname(demo)); ran.append(('demo with patch', r.returncode))
    assert r.returncode != 0, 'demo passes with the patch'
    demo_out = (r.stdout + r.stderr)[-1500:]
    r = sh(f'PYTHONPATH=/repo/src /venv/bin/python {demo}', cwd=os.path.dirname(demo)); ran.append(('demo without patch', r.returncode))
    assert r.returncode == 0, 'demo fails without the patch: ' + (r.stdout + r.stderr)[-800:]
    dst = f'/verif/seeded/{name}'
    os.makedirs(dst, exist_ok=True)
    shutil.copy(patch, dst + '/patch.diff'); shutil.copy(demo, dst + '/demo.py')
    notes = open(os.path.join(src, 'notes.md')).read() if os.path.exists(os.path.join(src, 'notes.md')) else ''
    meta = {'name': name, 'breaks_property': pid, 'origin': 'independent sub-agent given only the property text and a scratch worktree',
            'needs_to_manifest': notes[:2500], 'confirmed': [list(x) for x in ran], 'repo_head': sh('git -C /repo rev-parse --short HEAD').stdout.strip(),
            'demo_output_with_patch': demo_out, 'confirmed_at': time.strftime('%Y-%m-%d %H:%M:%S')}
    json.dump(meta, open(dst + '/meta.json', 'w'), indent=1)
    print('ADMITTED', name, ran)
finally:
    sh(f'git -C /repo worktree remove --force {wt}')
