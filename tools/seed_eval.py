#!/usr/bin/env python3
"""usage: seed_eval.py [--tier quick] [seed names or property ids ...]
For each admitted seed (seeded/<name>/), applies its patch to a scratch worktree of /repo HEAD under /tmp, runs the check of the
property it breaks against that copy (VERIF_REPO), records the outcome in seeded/RESULTS.json, removes the worktree."""
import json, os, subprocess, sys, time
ROOT = os.path.dirname(os.path.dirname(os.path.abspath(__file__)))
args = [a for a in sys.argv[1:] if not a.startswith('--')]
tier = 'quick'
if '--tier' in sys.argv:
    tier = sys.argv[sys.argv.index('--tier') + 1]
    args = [a for a in args if a != tier]
names = sorted(os.listdir(os.path.join(ROOT, 'seeded')))
names = [n for n in names if os.path.isdir(os.path.join(ROOT, 'seeded', n))]
if args:
    names = [n for n in names if any(n == a or n.startswith(a + '-') for a in args)]
res_path = os.environ.get('SEED_RESULTS') or os.path.join(ROOT, 'seeded', 'RESULTS.json')
results = json.load(open(res_path)) if os.path.exists(res_path) else {}
head = subprocess.run('git -C /repo rev-parse --short HEAD', shell=True, capture_output=True, text=True).stdout.strip()
for n in names:
    meta = json.load(open(os.path.join(ROOT, 'seeded', n, 'meta.json')))
    pid = meta['breaks_property']
    wt = f'/tmp/seedeval_{n}'
    subprocess.run(f'git -C /repo worktree remove --force {wt}', shell=True, capture_output=True)
    subprocess.run(f'git -C /repo worktree add -q --detach {wt} HEAD', shell=True, check=True)
    try:
        p = subprocess.run(['git', 'apply', os.path.join(ROOT, 'seeded', n, 'patch.diff')], cwd=wt, capture_output=True, text=True)
        if p.returncode != 0:
            results[n] = {'property': pid, 'status': 'patch does not apply to ' + head, 'detail': p.stderr[-300:]}
            print(n, results[n]['status'])
            continue
        env = dict(os.environ, VERIF_REPO=wt, VERIF_EVIDENCE_DIR=wt + '/.verif_evidence')
        t0 = time.time()
        p = subprocess.run([os.path.join(ROOT, 'check'), pid, '--tier', tier], cwd=ROOT, env=env, capture_output=True, text=True)
        out = p.stdout
        viol = [l for l in out.splitlines() if l.startswith('VIOLATION')]
        summ = [l for l in out.splitlines() if l.startswith(pid + ' [')]
        results[n] = {'property': pid, 'tier': tier, 'exit': p.returncode, 'violations': len(viol), 'detected': p.returncode == 1 and bool(viol),
                      'summary': summ[-1] if summ else '', 'wall_s': round(time.time() - t0), 'repo_head': head}
        print(n, 'DETECTED' if results[n]['detected'] else 'MISSED', 'exit', p.returncode, summ[-1][:150] if summ else out[-300:])
    finally:
        subprocess.run(f'git -C /repo worktree remove --force {wt}', shell=True, capture_output=True)
    cur = json.load(open(res_path)) if os.path.exists(res_path) else {}       # several evaluations may run side by side
    cur[n] = results[n]
    json.dump(cur, open(res_path, 'w'), indent=1, sort_keys=True)
