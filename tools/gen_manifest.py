#!/usr/bin/env python3
"""Regenerates /verif/MANIFEST.json from the table below (keeps MANIFEST valid and in sync)."""
import json, os
ROOT = os.path.dirname(os.path.dirname(os.path.abspath(__file__)))
BASE = 'cd /repo && /venv/bin/python -m pytest -ra -q -p no:cacheprovider --timeout=900 --continue-on-collection-errors'

COMMON_NOTE = ('Trusted: CrossHair 0.0.110 library models + documented driver patches (ASCII strings, exact-real amounts where stated), '
               'z3 5.1.0, ast.parse literal->Constant for AST-constant injection. Bounds and stubs are listed per obligation in the evidence.')
LEVEL_TEXT = ('Bounded proof per obligation: the real functions are executed symbolically (CrossHair + z3) and every path inside the stated '
              'bounds is explored; the solver finds no input violating the assertion (status CONFIRMED, with a refuted reachability twin) or '
              'returns a counterexample that is replayed on the unpatched code in a fresh interpreter before VIOLATION is printed. '
              'Obligations that time out are reported as inconclusive, never as discharged.')
CLAIMED = {
    'C01': ('bounded symbolic execution (CrossHair+z3) of MerchantEngine.match / normalize_merchant vs a first-match oracle; truth-vector abstraction + AST-constant injection',
            LEVEL_TEXT, 'Bounds: <=3 rules (4 thorough), description <=2-3 ASCII chars, constants <=1-2 chars, integer amounts. ' + COMMON_NOTE, 'DESIGN.md section 2 C01'),
    'C02': ('bounded symbolic execution (CrossHair+z3) of MerchantEngine.match in both modes and of the legacy loop vs a tag-union oracle; neutrality of tag-only rules by differential runs inside one path',
            LEVEL_TEXT, 'Bounds: <=3 rules (4 thorough); dynamic-tag text over a 3-letter alphabet (tag sets hash their members). ' + COMMON_NOTE, 'DESIGN.md section 2 C02'),
    'C04': ('bounded symbolic execution (CrossHair+z3) of tally\'s parser+evaluator vs an independent reference interpreter, plus metamorphic laws, per expression shape with symbolic leaves',
            LEVEL_TEXT, 'Bounds: ~80 shapes (quick) / ~200 (thorough); description <=2-3, string leaves <=1-2 ASCII chars; patterns of regex functions concrete; fuzzy() outside. ' + COMMON_NOTE, 'DESIGN.md section 2 C04'),
    'C06': ('SMT encoding (z3, IEEE doubles) of classification.py generated from source vs a bucket specification; CrossHair inductive-step obligations on analyze_transactions with exact-real amounts',
            LEVEL_TEXT, 'Bounds: all doubles x <=3 tags x <=10 chars for the bucket functions; accumulation over enumerated base lists with 1-2 symbolic transactions; float rounding of sums outside. ' + COMMON_NOTE, 'DESIGN.md section 2 C06'),
    'C09': ('bounded symbolic execution (CrossHair+z3) of MerchantEngine.match(most_specific) with symbolic truth vector, priorities and specificity components vs a lexicographic ranking oracle; all permutations inside one path',
            LEVEL_TEXT, 'Bounds: <=3 rules (4 thorough); specificity components unbounded non-negative ints (stubbed calculate_specificity) or read from a 15-member expression family. ' + COMMON_NOTE, 'DESIGN.md section 2 C09'),
    'C13': ('translation validation: Python AST and JS ESTree (acorn) of the classification functions translated to z3 (Float64, bounded ASCII tag lists) on every run; one equivalence query per output; cross-checked with z3 4.8.12 and cvc5',
            'Equivalence of the two programs for every double and every tag list within the bounds (unsat of the difference query); vacuity guard per bucket; models replayed on the real Python function and the real JS under node.',
            'Bounds: null or <=3 tags (4 thorough) of <=10 (12) ASCII chars. Trusted: engine/smt/symexec.py (validated against concrete runs of both real programs on every run), acorn, z3. If the source leaves the translator subset the check reports a harness error unless a fixed differential grid finds a replayable disagreement.', 'DESIGN.md section 2 C13'),
}
NOT_APPLICABLE = {}

def main():
    props = [json.loads(l) for l in open(os.path.join(ROOT, 'properties.jsonl'))]
    checks = []
    for p in props:
        pid = p['id']
        if pid not in CLAIMED:
            continue
        tech, text, note, ref = CLAIMED[pid]
        cat = 'translation_validation' if pid == 'C13' else 'other'
        checks.append({
            'property_id': pid,
            'quick_cmd': f'./check {pid} --tier quick',
            'thorough_cmd': f'./check {pid} --tier thorough',
            'evidence_file': f'/verif/evidence/{pid}.json',
            'replay_cmd_template': f'./check {pid} --replay {{path}}',
            'engine': 'smt' if pid == 'C13' else 'crosshair',
            'level_claimed': {'category': cat, 'text': text, 'design_ref': ref},
            'level_note': note,
            'technique': tech,
        })
    na = []
    for p in props:
        pid = p['id']
        if pid not in CLAIMED:
            na.append({'property_id': pid, 'reason': NOT_APPLICABLE.get(pid, 'check not built yet (work in progress); see DESIGN.md')})
    man = {
        'version': 1,
        'setup_cmd': './setup.sh',
        'hooks': {'guard': 'TALLY_VERIF', 'enable': 'none needed: all stubbing is done from the harness by assigning names in imported module namespaces; TALLY_VERIF=1 is exported by ./check',
                  'baseline_off_cmd': BASE, 'source_commits': [], 'add_only': True},
        'engines': [
            {'name': 'crosshair', 'path': 'engine/ch', 'serves_properties': [c['property_id'] for c in checks if c['engine'] == 'crosshair'],
             'kind_free_text': 'symbolic execution of the real Python functions with CrossHair 0.0.110 + z3, one obligation per process, reachability twins, replay in a fresh interpreter'},
            {'name': 'smt', 'path': 'engine/smt', 'serves_properties': [c['property_id'] for c in checks if c['engine'] == 'smt'],
             'kind_free_text': 'Python-AST and JS-ESTree to z3 translation regenerated from source on every run'},
        ],
        'checks': checks,
        'not_applicable': na,
        'notes': 'All checks regenerate their encodings from /repo\'s working tree. Exit 2 = harness error (never a verdict).',
    }
    with open(os.path.join(ROOT, 'MANIFEST.json'), 'w') as f:
        json.dump(man, f, indent=1)
    print('wrote MANIFEST.json with', len(checks), 'checks')

if __name__ == '__main__':
    main()
