#!/usr/bin/env python3
"""Regenerates /verif/MANIFEST.json from the table below (keeps MANIFEST valid and in sync)."""
import json, os
ROOT = os.path.dirname(os.path.dirname(os.path.abspath(__file__)))
BASE = 'cd /repo && /venv/bin/python -m pytest -ra -q -p no:cacheprovider --timeout=900 --continue-on-collection-errors'

CLAIMED = {
    # id: (technique, level text, level note, design ref)
    'C01': ('bounded symbolic execution of MerchantEngine.match/normalize_merchant (CrossHair+z3) against a first-match oracle; truth-vector abstraction + AST-constant injection',
            'Bounded proof per obligation: every path of the real matching code within the stated bounds is explored and the solver finds no input on which the result differs from an independent first-match oracle; counterexamples are replayed on the unpatched code.',
            'Bounds: <=4 rules, description <=4 ASCII chars, constants <=2 chars. Trusted: CrossHair library models, z3, ast.parse literal->Constant.', 'DESIGN.md section 2 C01'),
}
NOT_APPLICABLE = {}

def main():
    props = [json.loads(l) for l in open(os.path.join(ROOT, 'properties.jsonl'))]
    checks = []
    for p in props:
        pid = p['id']
        if pid not in CLAIMED:
            continue
        tech, text, note, ref = CLAIMED[pid]
        cat = 'translation_validation' if pid == 'C13' else 'other'
        checks.append({
            'property_id': pid,
            'quick_cmd': f'./check {pid} --tier quick',
            'thorough_cmd': f'./check {pid} --tier thorough',
            'evidence_file': f'/verif/evidence/{pid}.json',
            'replay_cmd_template': f'./check {pid} --replay {{path}}',
            'engine': 'smt' if pid == 'C13' else 'crosshair',
            'level_claimed': {'category': cat, 'text': text, 'design_ref': ref},
            'level_note': note,
            'technique': tech,
        })
    na = []
    for p in props:
        pid = p['id']
        if pid not in CLAIMED:
            na.append({'property_id': pid, 'reason': NOT_APPLICABLE.get(pid, 'check not built yet (work in progress); see DESIGN.md')})
    man = {
        'version': 1,
        'setup_cmd': './setup.sh',
        'hooks': {'guard': 'TALLY_VERIF', 'enable': 'none needed: all stubbing is done from the harness by assigning names in imported module namespaces; TALLY_VERIF=1 is exported by ./check',
                  'baseline_off_cmd': BASE, 'source_commits': [], 'add_only': True},
        'engines': [
            {'name': 'crosshair', 'path': 'engine/ch', 'serves_properties': [c['property_id'] for c in checks if c['engine'] == 'crosshair'],
             'kind_free_text': 'symbolic execution of the real Python functions with CrossHair 0.0.110 + z3, one obligation per process, reachability twins, replay in a fresh interpreter'},
            {'name': 'smt', 'path': 'engine/smt', 'serves_properties': [c['property_id'] for c in checks if c['engine'] == 'smt'],
             'kind_free_text': 'Python-AST and JS-ESTree to z3 translation regenerated from source on every run'},
        ],
        'checks': checks,
        'not_applicable': na,
        'notes': 'All checks regenerate their encodings from /repo\'s working tree. Exit 2 = harness error (never a verdict).',
    }
    with open(os.path.join(ROOT, 'MANIFEST.json'), 'w') as f:
        json.dump(man, f, indent=1)
    print('wrote MANIFEST.json with', len(checks), 'checks')

if __name__ == '__main__':
    main()
