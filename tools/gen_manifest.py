#!/usr/bin/env python3
"""Regenerates /verif/MANIFEST.json from the table below (keeps MANIFEST valid and in sync)."""
import json, os
ROOT = os.path.dirname(os.path.dirname(os.path.abspath(__file__)))
BASE = 'cd /repo && /venv/bin/python -m pytest -ra -q -p no:cacheprovider --timeout=900 --continue-on-collection-errors'

COMMON_NOTE = ('Trusted: CrossHair 0.0.110 library models + documented driver patches (ASCII strings, exact-real amounts where stated), '
               'z3 5.1.0, ast.parse literal->Constant for AST-constant injection. Bounds and stubs are listed per obligation in the evidence.')
LEVEL_TEXT = ('Bounded proof per obligation: the real functions are executed symbolically (CrossHair + z3) and every path inside the stated '
              'bounds is explored; the solver finds no input violating the assertion (status CONFIRMED, with a refuted reachability twin) or '
              'returns a counterexample that is replayed on the unpatched code in a fresh interpreter before VIOLATION is printed. '
              'Obligations that time out are reported as inconclusive, never as discharged.')
CLAIMED = {
    'C01': ('bounded symbolic execution (CrossHair+z3) of MerchantEngine.match / normalize_merchant vs a first-match oracle; truth-vector abstraction + AST-constant injection',
            LEVEL_TEXT, 'Bounds: <=3 rules (4 thorough); per rule file four focus groups (text / text2 / context / numbers) with description <=3, constants <=2 ASCII chars, integer amounts; fuzzy() against a written-out reference over a 3-letter alphabet (one concrete text per path). ' + COMMON_NOTE, 'DESIGN.md section 2 C01'),
    'C02': ('bounded symbolic execution (CrossHair+z3) of MerchantEngine.match in both modes and of the legacy loop vs a tag-union oracle; neutrality of tag-only rules by differential runs inside one path',
            LEVEL_TEXT, 'Bounds: <=3 rules (4 thorough); dynamic-tag text over a 3-letter alphabet (tag sets hash their members). ' + COMMON_NOTE, 'DESIGN.md section 2 C02'),
    'C04': ('bounded symbolic execution (CrossHair+z3) of tally\'s parser+evaluator vs an independent reference interpreter, plus metamorphic laws, per expression shape with symbolic leaves',
            LEVEL_TEXT, 'Bounds: ~80 shapes (quick) / ~200 (thorough); description <=2-3, string leaves <=1-2 ASCII chars; patterns of regex functions concrete; fuzzy() outside. ' + COMMON_NOTE, 'DESIGN.md section 2 C04'),
    'C06': ('SMT encoding (z3, IEEE doubles) of classification.py generated from source vs a bucket specification; CrossHair inductive-step obligations on analyze_transactions with exact-real amounts',
            LEVEL_TEXT, 'Bounds: all doubles x <=3 tags x <=10 chars for the bucket functions; accumulation over enumerated base lists with 1-2 symbolic transactions; float rounding of sums outside. ' + COMMON_NOTE, 'DESIGN.md section 2 C06'),
    'C09': ('bounded symbolic execution (CrossHair+z3) of MerchantEngine.match(most_specific) with symbolic truth vector, priorities and specificity components vs a lexicographic ranking oracle; all permutations inside one path',
            LEVEL_TEXT, 'Bounds: <=3 rules (4 thorough); specificity components unbounded non-negative ints (stubbed calculate_specificity) or read from a 15-member expression family. ' + COMMON_NOTE, 'DESIGN.md section 2 C09'),
    'C03': ('bounded symbolic execution (CrossHair+z3) of the evaluator\'s name/attribute/method/function resolution with SYMBOLIC identifier names on every receiver kind; node-type closure; identity snapshots for immutability; finite sweep of builtin/attribute names (exhaustion, reported separately)',
            LEVEL_TEXT, 'Bounds: identifier names <=10 (13) ASCII chars; ~55 representative snippets (one per ast node class / classic payload). Arbitrary source strings cannot be symbolic (ast.parse is a C boundary): not claimed. ' + COMMON_NOTE, 'DESIGN.md section 2 C03'),
    'C05': ('bounded symbolic execution (CrossHair+z3) of parse_generic_csv/parse_amount with contract stubs for csv.reader, float, strptime; symbolic cell counts, texts, amount-cell pieces, flags; oracle list from the property text',
            LEVEL_TEXT, 'Bounds: 1-2 rows, <=5 columns, 4 layouts, cell texts <=1-3 chars. Stubs (csv reader, float, strptime, normalize_merchant) are listed in the evidence; CSV quoting and real number parsing are outside. ' + COMMON_NOTE, 'DESIGN.md section 2 C05'),
    'C07': ('bounded symbolic execution (CrossHair+z3) of operation sequences (loads, classifications, evaluations) against a reference table computed in fresh interpreters; symbolic fixture indices cover the product histories x transactions; rules over supplemental rows with the rows compared item for item and type for type',
            LEVEL_TEXT, 'Bounds: sequences <=3 ops (4 thorough) from an enumerated family; description/memo/amount from small fixture sets selected by symbolic indices (the solver covers the product; it does not reason about text here). ' + COMMON_NOTE, 'DESIGN.md section 2 C07'),
    'C08': ('bounded symbolic execution (CrossHair+z3) of engine/normalize_merchant/apply_transforms/classify_merchants on files containing one ill-typed or partial expression from a generated family, with symbolic operand values; oracle: the failing construct is inapplicable for that item',
            LEVEL_TEXT, 'Bounds: 40 ill-typed match expressions, 20 ill-typed view filters, 4 positions; operands <=1-2 chars / ints. ' + COMMON_NOTE, 'DESIGN.md section 2 C08'),
    'C10': ('bounded symbolic execution (CrossHair+z3) of analyze_transactions -> classify_by_sections -> compute_section_totals with symbolic exact-real payments and symbolic view thresholds/strings vs an oracle of the documented primitives; independence by re-running with views removed/rotated',
            LEVEL_TEXT, 'Bounds: 2 merchants, 2-3 payments, fixed month layouts, 5 view files; cv only on concrete histories with symbolic threshold (square root of a symbolic number is not decidable here). ' + COMMON_NOTE, 'DESIGN.md section 2 C10'),
    'C14': ('real CSV->.rules pipeline on a family of CSV files: constants preserved (direct comparison), regex matching equivalence on symbolic descriptions (CrossHair+z3), whole-file equivalence with symbolic regex truth vector, exact-real amount and date',
            LEVEL_TEXT, 'Bounds: 12 CSV files, 13 patterns, description <=3 chars. Known finding listed in known_findings.json: relative date modifiers are dropped. ' + COMMON_NOTE, 'DESIGN.md section 2 C14'),
    'C17': ('bounded symbolic execution (CrossHair+z3) of MerchantEngine.parse / parse_sections over the product of layout-edit parameters and of single-point corruptions at symbolic positions; direct runs for load errors being reported',
            LEVEL_TEXT, 'Bounds: 3 merchants + 3 views base files; edit parameters as listed in the evidence. The solver covers the product of edit parameters; it does not reason about file text. ' + COMMON_NOTE, 'DESIGN.md section 2 C17'),
    'C18': ('bounded symbolic execution (CrossHair+z3) of parse_format_string on arrangements with symbolic spelling; inspect round trip through the real auto_detect_csv_format and the suggestion block extracted by AST from cmd_inspect',
            LEVEL_TEXT, 'Bounds: width <=4 (5 thorough), ~45 arrangements (quick), 10 header sets with symbolic affixes. csv reader stubbed. ' + COMMON_NOTE, 'DESIGN.md section 2 C18'),
    'C19': ('bounded-exhaustive symbolic execution (CrossHair+z3) of suggest_pattern/suggest_merchants_rule -> parse_merchants -> match over a small alphabet and structured skeletons (each path holds one concrete description: the text reaches ast.parse / re.compile)',
            LEVEL_TEXT, 'Bounds: free descriptions <=2 (3 thorough) chars over a 10-character alphabet; 13 skeletons with words <=1 (2) chars; long tokens (0..40 filler letters x 4 metacharacter pieces) and blank / tab runs between words by symbolic index. ' + COMMON_NOTE, 'DESIGN.md section 2 C19'),
    'C11': ('bounded symbolic execution (CrossHair+z3) of the real cmd_run with collaborators replaced by recorders driven by symbolic per-source and global settings; real load_config with load_settings stubbed; rule mode checked by classifying probes with the rules actually handed to the parser',
            LEVEL_TEXT, 'Wiring level (yaml, argparse and report text are outside) plus two end-to-end obligations: real cmd_run -> parse_generic_csv -> parse_amount -> normalize_merchant -> analyze_transactions with the csv reader, float() and strptime stubbed by contract and symbolic exact-real amounts. Bounds: 1-3 sources x 4-6 boolean settings, rule mode, rules-file kind, views, output format; pipeline: 2 sources / 3 rows. Stubs listed in the evidence. ' + COMMON_NOTE, 'DESIGN.md section 2 C11'),
    'C12': ('bounded symbolic execution (CrossHair+z3) of the four renderers on stats from the real analyze_transactions with symbolic exact-real amounts; json.dumps replaced by a recorder to compare the embedded structures with the analysis; hostile-string parse-back by direct runs',
            LEVEL_TEXT, 'Partly applicable: HTML/JSON parse-back for ALL strings cannot be decided here (json.dumps / html.parser are C and regex boundaries) - 17 hostile strings plus every placeholder token found in the current templates are run directly; formatted figures inside Markdown/text are opaque. ' + COMMON_NOTE, 'DESIGN.md section 2 C12'),
    'C15': ('bounded symbolic execution (CrossHair+z3) of the real migration commands on a real scratch directory with interposed file-system primitives; symbolic crash index, fault index, partial-write mode and initial state; post-state assertions through the real load path',
            LEVEL_TEXT, 'Bounds: crash/fault index 0..24, partial mode 0..2, 5 initial states; folder-layout migration: symbolic crash / fault index 0..40 (the listed point excluded by precondition), plus one direct run per point that names the failing step. Contract: POSIX semantics of the interposed calls; buffered write reaches disk at close. Known finding listed: folder-layout migration is not resumable. ' + COMMON_NOTE, 'DESIGN.md section 2 C15'),
    'C16': ('bounded symbolic execution (CrossHair+z3) of explain_description vs normalize_merchant on rules loaded from template files (symbolic description/amount) and of cmd_explain / cmd_discover / cmd_run with shared recorders (symbolic source flags)',
            LEVEL_TEXT, 'Bounds: description <=2 chars, 3 templates, 2-3 sources. Four known findings listed in known_findings.json (explain stops at tag-only rules, ignores let/variables and most_specific; explain/discover treat supplemental sources as transactions). ' + COMMON_NOTE, 'DESIGN.md section 2 C16'),
    'C20': ('bounded symbolic execution (CrossHair+z3) of the real commands on a real scratch budget whose initial state, arguments and command sequence are symbolic; frame condition over the byte contents of the tree before/after',
            LEVEL_TEXT, 'Bounds: 6 state flags per command, sequences of 2 commands, --migrate next to an unreferenced merchants.rules (5 flags). The solver covers the product of states/flags/sequences; commands run concretely on each path. ' + COMMON_NOTE, 'DESIGN.md section 2 C20'),
    'C13': ('translation validation: Python AST and JS ESTree (acorn) of the classification functions translated to z3 (Float64, bounded ASCII tag lists) on every run; one equivalence query per output; cross-checked with z3 4.8.12 and cvc5',
            'Equivalence of the two programs for every double and every tag list within the bounds (unsat of the difference query); vacuity guard per bucket; models replayed on the real Python function and the real JS under node.',
            'Bounds: null or <=3 tags (4 thorough) of <=10 (12) ASCII chars. Trusted: engine/smt/symexec.py (validated against concrete runs of both real programs on every run), acorn, z3. If the source leaves the translator subset the check reports a harness error unless a fixed differential grid finds a replayable disagreement.', 'DESIGN.md section 2 C13'),
}
NOT_APPLICABLE = {}

def main():
    props = [json.loads(l) for l in open(os.path.join(ROOT, 'properties.jsonl'))]
    checks = []
    for p in props:
        pid = p['id']
        if pid not in CLAIMED:
            continue
        tech, text, note, ref = CLAIMED[pid]
        cat = 'translation_validation' if pid == 'C13' else 'other'
        checks.append({
            'property_id': pid,
            'quick_cmd': f'./check {pid} --tier quick',
            'thorough_cmd': f'./check {pid} --tier thorough',
            'evidence_file': f'/verif/evidence/{pid}.json',
            'replay_cmd_template': f'./check {pid} --replay {{path}}',
            'engine': 'smt' if pid == 'C13' else 'crosshair',
            'level_claimed': {'category': cat, 'text': text, 'design_ref': ref},
            'level_note': note,
            'technique': tech,
        })
    na = []
    for p in props:
        pid = p['id']
        if pid not in CLAIMED:
            na.append({'property_id': pid, 'reason': NOT_APPLICABLE.get(pid, 'check not built yet (work in progress); see DESIGN.md')})
    man = {
        'version': 1,
        'setup_cmd': './setup.sh',
        'hooks': {'guard': 'TALLY_VERIF', 'enable': 'none needed: all stubbing is done from the harness by assigning names in imported module namespaces; TALLY_VERIF=1 is exported by ./check',
                  'baseline_off_cmd': BASE, 'source_commits': [], 'add_only': True},
        'engines': [
            {'name': 'crosshair', 'path': 'engine/ch', 'serves_properties': [c['property_id'] for c in checks if c['engine'] == 'crosshair'],
             'kind_free_text': 'symbolic execution of the real Python functions with CrossHair 0.0.110 + z3, one obligation per process, reachability twins, replay in a fresh interpreter'},
            {'name': 'smt', 'path': 'engine/smt', 'serves_properties': [c['property_id'] for c in checks if c['engine'] == 'smt'],
             'kind_free_text': 'Python-AST and JS-ESTree to z3 translation regenerated from source on every run'},
        ],
        'checks': checks,
        'not_applicable': na,
        'notes': 'All checks regenerate their encodings from /repo\'s working tree. Exit 2 = harness error (never a verdict).',
    }
    with open(os.path.join(ROOT, 'MANIFEST.json'), 'w') as f:
        json.dump(man, f, indent=1)
    print('wrote MANIFEST.json with', len(checks), 'checks')

if __name__ == '__main__':
    main()
