#!/bin/bash
# usage: tools/run_all.sh quick|thorough   -- runs every claimed check in turn, prints one summary line each
cd "$(dirname "$0")/.."
tier="${1:-quick}"
for p in $(python3 -c "import json; print(' '.join(c['property_id'] for c in json.load(open('MANIFEST.json'))['checks']))"); do
  start=$(date +%s)
  out=$(./check "$p" --tier "$tier" 2>&1)
  rc=$?
  echo "$(echo "$out" | grep -E "^$p \[" | tail -1) rc=$rc t=$(( $(date +%s) - start ))s"
  echo "$out" | grep -E "^(VIOLATION|HARNESS-ERROR)" | cut -c1-300
done
