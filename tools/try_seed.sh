#!/bin/bash
# usage: tools/try_seed.sh <seed name> <Cxx> [check args, e.g. --only substr]   (VERIF_TIER=quick|thorough)
# Applies seeded/<seed>/patch.diff (or benign/<name>/patch.diff) to a scratch worktree of /repo HEAD under /tmp, runs ./check <Cxx> against it (VERIF_REPO),
# removes the worktree.  /repo itself is never touched.
S="$1"; C="$2"; shift 2
WT=/tmp/try_${S}_$$
git -C /repo worktree add -q --detach "$WT" HEAD || exit 9
trap 'git -C /repo worktree remove --force "$WT" 2>/dev/null' EXIT
P="/verif/seeded/$S/patch.diff"; [ -f "$P" ] || P="/verif/benign/$S/patch.diff"
git -C "$WT" apply "$P" || { echo "patch does not apply"; exit 9; }
cd /verif && VERIF_VERBOSE=${VERIF_VERBOSE:-} VERIF_REPO="$WT" VERIF_EVIDENCE_DIR="$WT/.verif_evidence" ./check "$C" --tier "${VERIF_TIER:-quick}" "$@" 2>&1 | grep -vE "^\s*$" | cut -c1-600
echo "  -> $C exit=${PIPESTATUS[0]}"
