#!/bin/bash
# Builds /verif/.venv: an overlay on /venv (tally's own environment) plus crosshair-tool and
# z3-solver from the offline wheelhouse. Idempotent; no network.
set -e
cd "$(dirname "$0")"
V=/verif/.venv
if [ ! -x "$V/bin/python" ] || ! "$V/bin/python" -c "import crosshair, z3, tally" 2>/dev/null; then
  rm -rf "$V"
  /venv/bin/python -m venv "$V"
  SP=$("$V/bin/python" -c "import sysconfig; print(sysconfig.get_paths()['purelib'])")
  printf "import site; site.addsitedir('/venv/lib/python3.12/site-packages')\n" > "$SP/_overlay.pth"
  PIP_NO_INDEX=1 "$V/bin/pip" install -q --no-index --find-links /opt/veriftools/wheels crosshair-tool z3-solver
fi
"$V/bin/python" -c "import crosshair, z3, tally; print('setup ok', z3.get_version_string(), tally.__file__)"
