"""Replay a counterexample against the real code in a fresh interpreter, without CrossHair.

usage: python -m engine.ch.replay <harness module> <obligation id> <tier> <seed> <args.json path>
Prints one JSON line: {"reproduced": bool, "observed": ..., "exception": ...}
The obligation function itself calls tally's real functions; called with concrete arguments and
no CrossHair import it is an ordinary test of the real code (documented stubs stay in place).
"""
import importlib
import json
import sys
import traceback


def run(mod_name, ob_id, tier, seed, args):
    from engine import ob as OB, jsonx
    assert 'crosshair' not in sys.modules
    mod = importlib.import_module(mod_name)
    obs = {o.id: o for o in mod.obligations(tier, int(seed))}
    o = obs[ob_id]
    OB.TWIN = False
    fn = getattr(mod, o.factory)(**o.params)
    kwargs = jsonx.dec(args)
    res = {'reproduced': False, 'observed': None, 'exception': None}
    # preconditions: re-evaluate the `pre:` lines of the docstring concretely
    import inspect
    import types
    doc = (fn.__doc__ or '') if isinstance(fn, types.FunctionType) else ''
    env = {}
    if isinstance(fn, types.FunctionType):
        sig = inspect.signature(fn)
        bound = sig.bind(**kwargs)
        env = dict(fn.__globals__)
        env.update(bound.arguments)
    for line in doc.splitlines():
        line = line.strip()
        if line.startswith('pre:'):
            if not eval(line[4:].strip(), env):
                res['observed'] = 'precondition not met: ' + line
                return res
    try:
        for rep in range(max(1, int(getattr(o, 'replay_repeat', 1) or 1))):
            r = fn(**kwargs)
            res['observed'] = repr(r)[:500]
            res['reproduced'] = not bool(r)
            if res['reproduced']:
                if rep:
                    res['observed'] += ' (on call %d of the same obligation in one interpreter)' % (rep + 1)
                break
    except Exception as e:
        res['exception'] = repr(e)[:500] + ' ' + traceback.format_exc()[-800:]
        res['reproduced'] = True
    if hasattr(mod, 'describe'):
        try:
            res['detail'] = mod.describe(o, kwargs)
        except Exception as e:
            res['detail'] = 'describe failed: ' + repr(e)
    return res


def main():
    mod_name, ob_id, tier, seed, path = sys.argv[1:6]
    with open(path) as f:
        args = json.load(f)
    if isinstance(args, dict) and 'args' in args and 'obligation' in args:
        args = args['args']
    try:
        res = run(mod_name, ob_id, tier, seed, args)
    except BaseException as e:
        res = {'reproduced': False, 'error': repr(e) + traceback.format_exc()[-1500:]}
    sys.stdout.write('\n@@RESULT@@' + json.dumps(res) + '\n')


if __name__ == '__main__':
    main()
