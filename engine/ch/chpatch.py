"""Driver patches that make CrossHair 0.0.110 usable on tally (see DESIGN.md section 0).

Every switch is part of the claim and is listed in the evidence of the obligations that use it.

ascii      symbolic strings are 7-bit ASCII by construction (maxunicode = 127) and
           str.lower/upper on a symbolic string is a fork-free per-character mapping
           (exact on that alphabet).  Always on.
reals      `float` arguments are modelled as exact reals (RealBasedSymbolicFloat) and the
           UNKNOWN cap that CrossHair puts on real-modelled floats is lifted.  Rounding,
           NaN and infinities are therefore outside any claim made with this switch.
opaque     format(<symbolic number>, <non-empty spec>) returns the text '<num>' instead of
           concretising the number.  Sound only where the code does not branch on formatted
           numbers and the property is not about them.
"""
import z3
from crosshair.libimpl import builtinslib as B
from crosshair.tracers import NoTracing

_applied = set()


def _map(self, lo, hi, delta):
    with NoTracing():
        cps = self._codepoints
    n = len(self)  # traced; may realise the length
    out = []
    for i in range(n):
        cp = cps[i]
        with NoTracing():
            if isinstance(cp, B.SymbolicInt):
                v = cp.var
                out.append(B.SymbolicInt(z3.If(z3.And(v >= lo, v <= hi), v + delta, v)))
            else:
                out.append(cp + delta if lo <= cp <= hi else cp)
    with NoTracing():
        return B.LazyIntSymbolicStr(out)


def _lower(self):
    return _map(self, 65, 90, 32)


def _upper(self):
    return _map(self, 97, 122, -32)


def _swapcase(self):
    with NoTracing():
        cps = self._codepoints
    n = len(self)
    out = []
    for i in range(n):
        cp = cps[i]
        with NoTracing():
            if isinstance(cp, B.SymbolicInt):
                v = cp.var
                out.append(B.SymbolicInt(z3.If(z3.And(v >= 65, v <= 90), v + 32,
                                               z3.If(z3.And(v >= 97, v <= 122), v - 32, v))))
            else:
                out.append(cp + 32 if 65 <= cp <= 90 else (cp - 32 if 97 <= cp <= 122 else cp))
    with NoTracing():
        return B.LazyIntSymbolicStr(out)


def apply(reals=False, opaque=False, sqrt_free=False):
    if 'ascii' not in _applied:
        B.LazyIntSymbolicStr.lower = _lower
        B.LazyIntSymbolicStr.upper = _upper
        B.LazyIntSymbolicStr.swapcase = _swapcase
        B.maxunicode = 127
        _applied.add('ascii')
    if opaque and 'opaque' not in _applied:
        def _opaque_format(self, fmt):
            return '<num>' if fmt else str(self)
        B.SymbolicNumberAble.__format__ = _opaque_format
        _orig_format = B._format

        def _format2(obj, format_spec=""):
            with NoTracing():
                if format_spec and isinstance(obj, B.SymbolicNumberAble):
                    return '<num>'
            return _orig_format(obj, format_spec)
        B._format = _format2
        from crosshair.core import _PATCH_REGISTRATIONS as _PR
        _PR[format] = _format2
        _applied.add('opaque')
    if reals and 'reals' not in _applied:
        from crosshair.statespace import StateSpace as _SS
        _SS.cap_result_at_unknown = lambda self: None
        B._PYTYPE_TO_WRAPPER_TYPE[float] = ((B.RealBasedSymbolicFloat, 1.0),)
        _applied.add('reals')
    if sqrt_free and 'sqrt_free' not in _applied:
        # x ** 0.5 of a symbolic number returns a fresh non-negative real instead of concretising x.
        # Over-approximation: sound for properties that do not depend on the root's value.
        from crosshair.statespace import context_statespace as _cs
        _orig_pow = B.SymbolicNumberAble.__pow__

        def _pow(self, other, mod=None):
            if mod is None and isinstance(other, float) and other == 0.5:
                with NoTracing():
                    space = _cs()
                    r = z3.Real('sqrt_' + str(space.uniq()))
                    space.add(r >= 0)
                    return B.RealBasedSymbolicFloat(r)
            return _orig_pow(self, other, mod)
        B.SymbolicNumberAble.__pow__ = _pow
        B.RealBasedSymbolicFloat.__pow__ = _pow
        _applied.add('sqrt_free')
    return sorted(_applied)


def post_import():
    """Called after crosshair.core_and_libs is imported.  CrossHair routes calls of functools.lru_cache-wrapped functions
    around the cache; a cache is exactly the kind of state several properties are about, so the real cache is kept."""
    from functools import _lru_cache_wrapper
    from crosshair.core import _PATCH_REGISTRATIONS
    _PATCH_REGISTRATIONS.pop(_lru_cache_wrapper.__call__, None)
    _applied.add('real-lru_cache')
    return sorted(_applied)
