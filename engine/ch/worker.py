"""Run ONE obligation (or its reachability twin) under CrossHair and print one JSON line.

usage: python -m engine.ch.worker <harness module> <obligation id> <tier> <seed> [--twin]
"""
import collections
import importlib
import json
import os
import sys
import time
import traceback


def main():
    mod_name, ob_id, tier, seed = sys.argv[1:5]
    twin = '--twin' in sys.argv[5:]
    t0 = time.time()
    out = {'id': ob_id, 'twin': twin, 'status': 'ERROR', 'message': '', 'args': None,
           'paths': 0, 'solver_queries': 0, 'solver_time_s': 0.0}
    try:
        sys.setrecursionlimit(10000)
        import z3
        from engine import ob as OB, jsonx
        from engine.ch import chpatch
        mod = importlib.import_module(mod_name)
        obs = {o.id: o for o in mod.obligations(tier, int(seed))}
        o = obs[ob_id]
        out['patches'] = chpatch.apply(reals=o.reals, opaque=o.opaque, sqrt_free=o.sqrt_free)
        OB.TWIN = twin
        fn = getattr(mod, o.factory)(**o.params)

        # solver statistics
        stats = {'n': 0, 't': 0.0}
        _orig_check = z3.Solver.check
        _clock = time.perf_counter  # time.time()/monotonic() are modelled symbolically by CrossHair

        def _check(self, *a, **k):
            s = _clock()
            try:
                return _orig_check(self, *a, **k)
            finally:
                stats['n'] += 1
                stats['t'] += _clock() - s
        z3.Solver.check = _check

        import crosshair.core_and_libs  # noqa: F401  (registers library models)
        out['patches'] = chpatch.post_import()
        from crosshair import core
        from crosshair.options import AnalysisOptionSet, AnalysisKind
        from crosshair.statespace import MessageType
        from crosshair.tracers import NoTracing

        captured = {}
        _orig_mk = core.make_counterexample_message

        def _mk(conditions, args, return_val=None):
            msg = _orig_mk(conditions, args, return_val)
            try:
                with NoTracing():
                    reprer = core.context_statespace().extra(core.LazyCreationRepr)
                    real = reprer.deep_realize(args)
                    captured['args'] = dict(real.arguments)
            except Exception as e:  # pragma: no cover
                captured['err'] = repr(e)
            return msg
        core.make_counterexample_message = _mk

        timeout = o.timeout if not twin else min(o.timeout, 30.0)
        if os.environ.get('VERIF_TIMEOUT_CAP'):
            timeout = min(timeout, float(os.environ['VERIF_TIMEOUT_CAP']))
        optset = AnalysisOptionSet(
            analysis_kind=[AnalysisKind.PEP316],
            per_condition_timeout=float(timeout),
            per_path_timeout=float(max(timeout / 2, 5.0)),
            max_uninteresting_iterations=0,
            report_all=True,
        )
        if o.max_iterations:
            optset = optset.overlay(AnalysisOptionSet(max_iterations=o.max_iterations))
        checkables = core.analyze_function(fn, optset)
        if len(checkables) != 1:
            raise RuntimeError(f'expected exactly one condition on {fn.__name__}, got {len(checkables)}')
        ck = checkables[0]
        if hasattr(ck, 'options'):
            ck.options.stats = collections.Counter()
        msgs = list(ck.analyze())
        if hasattr(ck, 'options') and ck.options.stats is not None:
            out['paths'] = int(ck.options.stats.get('num_paths', 0))
        out['solver_queries'] = stats['n']
        out['solver_time_s'] = round(stats['t'], 3)
        states = [m.state for m in msgs]
        out['message'] = ' | '.join(f'{m.state.name}: {m.message}' for m in msgs)[:2000]
        if any(s in (MessageType.POST_FAIL, MessageType.POST_ERR, MessageType.EXEC_ERR) for s in states):
            out['status'] = 'REFUTED'
            tb = [m.traceback for m in msgs if m.traceback]
            if tb:
                out['traceback'] = tb[0][-1500:]
            if 'NotDeterministic' in out['message']:
                out['status'] = 'ERROR'
            if 'HarnessAssumption' in out['message'] or 'HarnessAssumption' in out.get('traceback', ''):
                # the harness cannot hook into this source: inconclusive, never a violation
                out['status'] = 'UNKNOWN'
                out['message'] = 'harness assumption not met: ' + out['message']
            if 'args' in captured:
                try:
                    out['args'] = jsonx.enc(captured['args'])
                    json.dumps(out['args'])
                except Exception as e:
                    out['args'] = None
                    out['args_error'] = repr(e)
        elif MessageType.PRE_UNSAT in states:
            out['status'] = 'PRE_UNSAT'
        elif MessageType.CONFIRMED in states:
            out['status'] = 'CONFIRMED'
        elif MessageType.CANNOT_CONFIRM in states:
            out['status'] = 'UNKNOWN'
        elif MessageType.SYNTAX_ERR in states or MessageType.IMPORT_ERR in states:
            out['status'] = 'ERROR'
        else:
            out['status'] = 'ERROR'
            out['message'] = 'no verdict: ' + out['message']
    except BaseException as e:  # noqa
        out['status'] = 'UNKNOWN' if type(e).__name__ == 'HarnessAssumption' else 'ERROR'
        out['message'] = (out.get('message') or '') + ' ' + repr(e) + ' ' + traceback.format_exc()[-1500:]
    out['cpu_s'] = round(time.process_time(), 2)
    out['wall_s'] = round(time.time() - t0, 2)
    sys.stdout.write('\n@@RESULT@@' + json.dumps(out) + '\n')
    sys.stdout.flush()
    os._exit(0)


if __name__ == '__main__':
    main()
