import argparse
import os
import sys
from engine import runner


def main():
    ap = argparse.ArgumentParser()
    ap.add_argument('property')
    ap.add_argument('--tier', default=os.environ.get('VERIF_TIER', 'quick'))
    ap.add_argument('--replay')
    ap.add_argument('--only', nargs='*')
    ap.add_argument('--jobs', type=int)
    a = ap.parse_args()
    seed = int(os.environ.get('VERIF_SEED', '0') or 0)
    if a.replay:
        sys.exit(runner.run_replay(a.property, a.replay))
    sys.exit(runner.run_property(a.property, a.tier, seed, a.only, a.jobs))


if __name__ == '__main__':
    main()
