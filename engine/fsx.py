"""File-system effect interposition for crash / fault injection (C15, C20).

The code under test runs against a REAL scratch directory.  Inside `Interpose(root, ...)` every mutating primitive that
touches a path under `root` is counted as one effect and logged:
  open(path, 'w'|'a'|'x'...)   1 effect when the file is created/truncated, 1 effect when its buffered content reaches
                               the disk (at close); in between the file is empty / unchanged
  os.replace, os.rename, os.remove, os.unlink, os.mkdir, os.makedirs, os.rmdir, shutil.move, shutil.copy* (one effect per file),
  shutil.rmtree (one effect per file and directory removed)
At effect number `crash_at` a Crash (BaseException: tally's `except Exception` cannot swallow it) is raised BEFORE the
effect happens - except for a flush, where `partial` selects what reached the disk (0 nothing, 1 the first half, 2 all of it).
At effect number `fault_at` an OSError is raised instead and nothing happens.
Contract assumed: POSIX semantics of these calls; a buffered write reaches the file at close as one effect.
"""
import builtins
import io
import os
import shutil


class Crash(BaseException):
    pass


class _WFile:
    def __init__(self, ip, path, mode, kw):
        self.ip, self.path, self.mode, self.kw = ip, path, mode, kw
        self.buf = []
        self.closed = False
        ip.open_files.append(self)
        ip.effect('create' if 'a' not in mode else 'open-append', path)
        self.binary = 'b' in mode
        if 'a' not in mode:
            with ip.real_open(path, 'wb' if self.binary else 'w', **kw):
                pass
        elif not os.path.exists(path):
            with ip.real_open(path, 'ab' if self.binary else 'a', **kw):
                pass

    def fileno(self):
        raise OSError('buffered by the interposition layer')

    def write(self, s):
        self.buf.append(s)
        return len(s)

    def writelines(self, lines):
        for l in lines:
            self.write(l)

    def flush(self):
        pass

    def close(self):
        if self.closed:
            return
        self.closed = True
        data = (b'' if self.binary else '').join(self.buf)
        if not data:
            return
        amode = 'ab' if self.binary else 'a'
        partial = self.ip.effect('flush', self.path, flush=True)
        if partial is not None:
            part = {0: data[:0], 1: data[:len(data) // 2], 2: data}[partial]
            if part:
                with self.ip.real_open(self.path, amode, **self.kw) as f:
                    f.write(part)
            raise Crash('crash during flush of ' + self.path)
        with self.ip.real_open(self.path, amode, **self.kw) as f:
            f.write(data)

    def __enter__(self):
        return self

    def __exit__(self, et, ev, tb):
        if et is None:
            self.close()
        else:
            self.closed = True      # the exception wins; buffered data is lost
        return False


class Interpose:
    def __init__(self, root, crash_at=None, fault_at=None, partial=0):
        self.root = os.path.realpath(root)
        self.crash_at, self.fault_at, self.partial = crash_at, fault_at, partial
        self.log = []
        self.n = 0
        self.open_files = []          # a rename of a file that is still open moves the open handle with it (POSIX)
        self.real_open = builtins.open

    def inside(self, p):
        try:
            rp = os.path.realpath(os.fspath(p))
        except TypeError:
            return False
        return rp == self.root or rp.startswith(self.root + os.sep)

    def effect(self, kind, path, flush=False):
        idx = self.n
        self.n += 1
        self.log.append((idx, kind, os.path.relpath(os.path.realpath(os.fspath(path)), self.root)))
        if self.fault_at is not None and idx == self.fault_at:
            raise OSError(5, 'injected I/O error', os.fspath(path))
        if self.crash_at is not None and idx == self.crash_at:
            if flush:
                return self.partial
            raise Crash('crash before %s %s' % (kind, path))
        return None

    def _open(self, file, mode='r', *a, **kw):
        if isinstance(file, (str, bytes, os.PathLike)) and any(c in mode for c in 'wax+') and self.inside(file):
            kw2 = {} if 'b' in mode else {k: v for k, v in kw.items() if k in ('encoding', 'errors', 'newline')}
            return _WFile(self, os.fspath(file), mode, kw2)
        return self.real_open(file, mode, *a, **kw)

    def _wrap1(self, real, kind):
        def f(path, *a, **kw):
            if self.inside(path):
                self.effect(kind, path)
            return real(path, *a, **kw)
        return f

    def _follow(self, src, dst):
        try:
            rs = os.path.realpath(os.fspath(src))
        except TypeError:
            return
        for wf in self.open_files:
            if not wf.closed and os.path.realpath(wf.path) == rs:
                wf.path = os.fspath(dst)

    def _wrap2(self, real, kind):
        def f(src, dst, *a, **kw):
            if self.inside(src) or self.inside(dst):
                self.effect(kind, dst if self.inside(dst) else src)
            if kind in ('replace', 'rename'):
                self._follow(src, dst)
            if kind == 'copy':
                saved = (builtins.open, io.open)           # one effect for the whole copy
                builtins.open, io.open = self._real['open'], self._real['io.open']
                try:
                    return real(src, dst, *a, **kw)
                finally:
                    builtins.open, io.open = saved
            return real(src, dst, *a, **kw)
        return f

    def _makedirs(self, path, mode=0o777, exist_ok=False):
        if self.inside(path) and not os.path.isdir(path):
            self.effect('makedirs', path)
        saved = os.mkdir
        os.mkdir = self._real['os.mkdir']       # one effect for the whole call
        try:
            return self._real['os.makedirs'](path, mode, exist_ok)
        finally:
            os.mkdir = saved

    def __enter__(self):
        self._real = {'open': builtins.open, 'io.open': io.open, 'os.replace': os.replace, 'os.rename': os.rename, 'os.remove': os.remove, 'os.unlink': os.unlink,
                      'os.mkdir': os.mkdir, 'os.makedirs': os.makedirs, 'os.rmdir': os.rmdir, 'shutil.move': shutil.move,
                      'shutil.copy': shutil.copy, 'shutil.copy2': shutil.copy2, 'shutil.copyfile': shutil.copyfile, 'shutil.rmtree': shutil.rmtree}
        builtins.open = self._open
        io.open = self._open
        os.replace = self._wrap2(self._real['os.replace'], 'replace')
        os.rename = self._wrap2(self._real['os.rename'], 'rename')
        os.remove = self._wrap1(self._real['os.remove'], 'remove')
        os.unlink = self._wrap1(self._real['os.unlink'], 'unlink')
        os.mkdir = self._wrap1(self._real['os.mkdir'], 'mkdir')
        os.rmdir = self._wrap1(self._real['os.rmdir'], 'rmdir')
        os.makedirs = self._makedirs
        # shutil.move of a file on one file system is a rename: ONE effect (os.rename inside it is not counted again)
        real_move = self._real['shutil.move']

        def move(src, dst, *a, **kw):
            if self.inside(src) or self.inside(dst):
                self.effect('move', dst)
            self._follow(src, dst)
            saved = (os.rename, os.replace)
            os.rename, os.replace = self._real['os.rename'], self._real['os.replace']
            try:
                return real_move(src, dst, *a, **kw)
            finally:
                os.rename, os.replace = saved
        shutil.move = move
        shutil.copy = self._wrap2(self._real['shutil.copy'], 'copy')
        shutil.copy2 = self._wrap2(self._real['shutil.copy2'], 'copy')
        shutil.copyfile = self._wrap2(self._real['shutil.copyfile'], 'copy')
        real_rmtree = self._real['shutil.rmtree']

        def rmtree(path, ignore_errors=False, onerror=None, **kw):
            # removing a tree is not atomic: one effect per file and per directory, bottom-up
            if not self.inside(path):
                return real_rmtree(path, ignore_errors, onerror, **kw)
            try:
                for root_, dirs, files in os.walk(path, topdown=False):
                    for fn in files:
                        os.unlink(os.path.join(root_, fn))
                    for dn in dirs:
                        os.rmdir(os.path.join(root_, dn))
                os.rmdir(path)
            except OSError:
                if not ignore_errors:
                    raise
        shutil.rmtree = rmtree
        return self

    def __exit__(self, *a):
        builtins.open = self._real['open']
        io.open = self._real['io.open']
        os.replace, os.rename, os.remove, os.unlink = self._real['os.replace'], self._real['os.rename'], self._real['os.remove'], self._real['os.unlink']
        os.mkdir, os.makedirs, os.rmdir = self._real['os.mkdir'], self._real['os.makedirs'], self._real['os.rmdir']
        shutil.move, shutil.copy, shutil.copy2, shutil.copyfile, shutil.rmtree = (self._real['shutil.move'], self._real['shutil.copy'], self._real['shutil.copy2'],
                                                                                   self._real['shutil.copyfile'], self._real['shutil.rmtree'])
        return False


def snapshot(root):
    """{relative path: bytes} of every file under root."""
    out = {}
    for d, _, fns in os.walk(root):
        for fn in fns:
            p = os.path.join(d, fn)
            with open(p, 'rb') as f:
                out[os.path.relpath(p, root)] = f.read()
    return out
