"""JSON round-trip for counterexample arguments (floats incl. nan/inf, tuples, sets, dates)."""
import json
import math
from datetime import date, datetime


def enc(o):
    if isinstance(o, bool) or o is None or isinstance(o, str):
        return o
    if isinstance(o, int):
        return int(o)
    if isinstance(o, float):
        if math.isnan(o) or math.isinf(o):
            return {'__float__': repr(o)}
        return float(o)
    if isinstance(o, datetime):
        return {'__datetime__': o.isoformat()}
    if isinstance(o, date):
        return {'__date__': o.isoformat()}
    if isinstance(o, tuple):
        return {'__tuple__': [enc(x) for x in o]}
    if isinstance(o, (set, frozenset)):
        return {'__set__': sorted((enc(x) for x in o), key=repr)}
    if isinstance(o, list):
        return [enc(x) for x in o]
    if isinstance(o, dict):
        return {'__dict__': [[enc(k), enc(v)] for k, v in o.items()]}
    return {'__repr__': repr(o)}


def dec(o):
    if isinstance(o, list):
        return [dec(x) for x in o]
    if isinstance(o, dict):
        if '__float__' in o:
            return float(o['__float__'])
        if '__date__' in o:
            return date.fromisoformat(o['__date__'])
        if '__datetime__' in o:
            return datetime.fromisoformat(o['__datetime__'])
        if '__tuple__' in o:
            return tuple(dec(x) for x in o['__tuple__'])
        if '__set__' in o:
            return set(dec(x) for x in o['__set__'])
        if '__dict__' in o:
            return {dec(k): dec(v) for k, v in o['__dict__']}
        if '__repr__' in o:
            raise ValueError('argument not replayable: ' + o['__repr__'])
        return {k: dec(v) for k, v in o.items()}
    return o


def dumps(o, **kw):
    return json.dumps(enc(o), **kw)


def loads(s):
    return dec(json.loads(s))
