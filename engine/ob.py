"""Obligation descriptors and the small helpers harness functions use."""
import ast
import copy
from dataclasses import dataclass, field, asdict
from typing import Any, Dict, List, Optional

import os as _os

# the repository under test (a scratch copy can be checked by exporting VERIF_REPO)
REPO = _os.environ.get('VERIF_REPO', '/repo')
REPO_SRC = REPO + '/src'

TWIN = False  # set by the worker for the reachability twin of an obligation


def post(cond):
    """Final assertion of an obligation.  In twin mode the assertion is `False`, so the twin is
    refuted iff some path satisfying the preconditions reaches this point."""
    if TWIN:
        return False
    return bool(cond)


@dataclass
class Obligation:
    id: str                      # unique within the property
    factory: str                 # name of a function in the harness module: factory(**params) -> fn
    params: Dict[str, Any] = field(default_factory=dict)
    kind: str = 'main'           # 'main' (must hold) | 'known' (expected refuted: listed finding)
    known_key: Optional[str] = None
    timeout: float = 60.0        # CrossHair per_condition_timeout (CPU s); wall kill at 1.5x + 20
    reals: bool = False
    opaque: bool = False
    sqrt_free: bool = False      # x ** 0.5 on a symbolic number returns a fresh non-negative real
    twin: bool = True            # run the reachability twin
    bounds: str = ''             # human-readable bounds of this obligation
    group: str = ''              # which part of the property this obligation belongs to
    engine: str = 'crosshair'    # 'crosshair' | 'smt' | 'concrete'
    max_iterations: Optional[int] = None
    replay_repeat: int = 1       # the replay calls the obligation this many times in ONE fresh interpreter (history-dependent properties)

    def to_json(self):
        return asdict(self)


class HarnessAssumption(Exception):
    """A private name / mechanism of tally that the harness hooks into is not what it was when the harness was written
    (a refactoring moved it).  The obligation cannot be decided on this source: it is reported INCONCLUSIVE with this
    message - never as a violation, never as discharged."""


def need(cond, what):
    if not cond:
        raise HarnessAssumption(what)


def _clear_caches_of(mod, dict_names):
    for name in dict_names:
        c = getattr(mod, name, None)
        if isinstance(c, dict):
            c.clear()
    for v in list(vars(mod).values()):
        cc = getattr(v, 'cache_clear', None)          # functools caches a refactoring may have introduced
        if callable(cc) and getattr(v, '__module__', None) == mod.__name__:
            try:
                cc()
            except Exception:
                pass


def reset_tally_caches():
    """Clear tally's process-wide caches (CrossHair re-runs the harness once per path inside one interpreter)."""
    from tally import expr_parser, merchant_utils
    _clear_caches_of(expr_parser, ['_expression_cache', '_regex_cache'])
    _clear_caches_of(merchant_utils, [])
    if hasattr(merchant_utils, '_cached_engine'):
        merchant_utils._cached_engine = None
    if hasattr(merchant_utils, '_cached_engine_path'):
        merchant_utils._cached_engine_path = None


def use_engine(eng):
    """Make `eng` the engine normalize_merchant uses (what get_all_rules does after loading a .rules file)."""
    from tally import merchant_utils
    need(hasattr(merchant_utils, '_cached_engine'), 'merchant_utils._cached_engine is gone: the engine normalize_merchant uses cannot be set')
    merchant_utils._cached_engine = eng


def _fresh_cached_tree(expr_src):
    """The tree tally's evaluator will use for `expr_src` (parsed now, by the real parser)."""
    from tally import expr_parser
    c = getattr(expr_parser, '_expression_cache', None)
    if isinstance(c, dict):
        c.pop(expr_src, None)
    tree = expr_parser.parse_expression(expr_src)
    # the injection only reaches the evaluator if the parser hands out the SAME tree next time
    need(expr_parser.parse_expression(expr_src) is tree,
         'expr_parser.parse_expression no longer returns one cached tree per expression text: constants cannot be injected')
    return tree


def inject(expr_src: str, values: Dict[str, Any]):
    """AST-constant injection.  Parses `expr_src` with tally's real parser (so it is validated
    and cached under its own text) and overwrites every `ast.Constant` whose concrete value is a
    key of `values` (placeholders such as "@P1" or 9001) by the (possibly symbolic) value.
    Returns the cached tree.  Trusted: ast.parse maps a literal to a Constant holding it."""
    tree = _fresh_cached_tree(expr_src)
    for node in ast.walk(tree):
        if isinstance(node, ast.Constant):
            v = node.value
            if isinstance(v, bool):
                continue
            if (isinstance(v, (str, int, float))) and v in values:
                node.value = values[v]
    return tree


def inject_tree(tree, values: Dict[str, Any]):
    """Same as inject() for an already parsed tree (e.g. Section.filter_ast)."""
    for node in ast.walk(tree):
        if isinstance(node, ast.Constant):
            v = node.value
            if isinstance(v, bool):
                continue
            if (isinstance(v, (str, int, float))) and v in values:
                node.value = values[v]
    return tree


def const_true_false(expr_src: str, value):
    """Make the whole cached tree of `expr_src` evaluate to `value`: the body becomes a Constant
    holding it (truth-vector abstraction)."""
    tree = _fresh_cached_tree(expr_src)
    tree.body = ast.Constant(value=value)
    return tree


def pick(x, n):
    """A CONCRETE int in range(n) equal to the (symbolic) int x, obtained by a comparison chain: one path per value.
    (`int(x)` keeps a CrossHair int symbolic; using it in formatted text or as a dict key then realises it through the
    hash with an order of magnitude more paths.)"""
    for i in range(n - 1):
        if x == i:
            return i
    return n - 1


def flag(b):
    """A concrete bool equal to the (symbolic) bool b."""
    return True if b else False
