"""Obligation descriptors and the small helpers harness functions use."""
import ast
import copy
from dataclasses import dataclass, field, asdict
from typing import Any, Dict, List, Optional

import os as _os

# the repository under test (a scratch copy can be checked by exporting VERIF_REPO)
REPO = _os.environ.get('VERIF_REPO', '/repo')
REPO_SRC = REPO + '/src'

TWIN = False  # set by the worker for the reachability twin of an obligation


def post(cond):
    """Final assertion of an obligation.  In twin mode the assertion is `False`, so the twin is
    refuted iff some path satisfying the preconditions reaches this point."""
    if TWIN:
        return False
    return bool(cond)


@dataclass
class Obligation:
    id: str                      # unique within the property
    factory: str                 # name of a function in the harness module: factory(**params) -> fn
    params: Dict[str, Any] = field(default_factory=dict)
    kind: str = 'main'           # 'main' (must hold) | 'known' (expected refuted: listed finding)
    known_key: Optional[str] = None
    timeout: float = 60.0        # CrossHair per_condition_timeout (CPU s); wall kill at 1.5x + 20
    reals: bool = False
    opaque: bool = False
    sqrt_free: bool = False      # x ** 0.5 on a symbolic number returns a fresh non-negative real
    twin: bool = True            # run the reachability twin
    bounds: str = ''             # human-readable bounds of this obligation
    group: str = ''              # which part of the property this obligation belongs to
    engine: str = 'crosshair'    # 'crosshair' | 'smt' | 'concrete'
    max_iterations: Optional[int] = None

    def to_json(self):
        return asdict(self)


def reset_tally_caches():
    """Clear tally's three process-wide caches (CrossHair re-runs the harness once per path
    inside one interpreter)."""
    from tally import expr_parser, merchant_utils
    expr_parser._expression_cache.clear()
    expr_parser._regex_cache.clear()
    merchant_utils._cached_engine = None
    merchant_utils._cached_engine_path = None


def inject(expr_src: str, values: Dict[str, Any]):
    """AST-constant injection.  Parses `expr_src` with tally's real parser (so it is validated
    and cached under its own text) and overwrites every `ast.Constant` whose concrete value is a
    key of `values` (placeholders such as "@P1" or 9001) by the (possibly symbolic) value.
    Returns the cached tree.  Trusted: ast.parse maps a literal to a Constant holding it."""
    from tally import expr_parser
    expr_parser._expression_cache.pop(expr_src, None)
    tree = expr_parser.parse_expression(expr_src)
    for node in ast.walk(tree):
        if isinstance(node, ast.Constant):
            v = node.value
            if isinstance(v, bool):
                continue
            if (isinstance(v, (str, int, float))) and v in values:
                node.value = values[v]
    return tree


def inject_tree(tree, values: Dict[str, Any]):
    """Same as inject() for an already parsed tree (e.g. Section.filter_ast)."""
    for node in ast.walk(tree):
        if isinstance(node, ast.Constant):
            v = node.value
            if isinstance(v, bool):
                continue
            if (isinstance(v, (str, int, float))) and v in values:
                node.value = values[v]
    return tree


def const_true_false(expr_src: str, value):
    """Make the whole cached tree of `expr_src` evaluate to `value`: the body becomes a Constant
    holding it (truth-vector abstraction)."""
    from tally import expr_parser
    expr_parser._expression_cache.pop(expr_src, None)
    tree = expr_parser.parse_expression(expr_src)
    tree.body = ast.Constant(value=value)
    return tree


def pick(x, n):
    """A CONCRETE int in range(n) equal to the (symbolic) int x, obtained by a comparison chain: one path per value.
    (`int(x)` keeps a CrossHair int symbolic; using it in formatted text or as a dict key then realises it through the
    hash with an order of magnitude more paths.)"""
    for i in range(n - 1):
        if x == i:
            return i
    return n - 1


def flag(b):
    """A concrete bool equal to the (symbolic) bool b."""
    return True if b else False
