"""Engine B: a small symbolic evaluator that turns the classification functions of
src/tally/classification.py (Python AST) and of src/tally/spending_report.js (ESTree from node's bundled
acorn) into z3 terms.  The encoding is regenerated from /repo's current source on every run.  Any
construct outside the supported subset raises Unsupported (a harness error naming it - never a silent pass).

Value domains
  number      z3 FloatingPoint Float64 term (IEEE-754: NaN, +-0, +-inf, subnormals are in), or a Python
              int/float constant lifted on demand
  string      SymStr(len: Int, chars: [BV8]*L) with chars < 128 (ASCII), or a Python str constant
  tag list    SymList(present: Bool, n: Int 0..K, items: [SymStr]*K)   (present False = None/null/undefined)
  set         SymSet(items=[(guard: Bool, SymStr or str)])  - built from comprehension/map or constants
  dict/object PyDict {key: value}
  bool        z3 Bool or Python bool

Control flow: path enumeration over `if` with symbolic conditions (the functions have <= 6 paths); the
results of all paths are merged into one ite-term per output, so each property is ONE solver query.
"""
import ast
import json
import os
import subprocess
import z3

F64 = z3.Float64()
RNE = z3.RNE()
K_TAGS = 3
L_CHARS = 10


class Unsupported(Exception):
    pass


def fp(x):
    if z3.is_fp(x):
        return x
    if isinstance(x, bool):
        raise Unsupported('bool used as number')
    if isinstance(x, (int, float)):
        return z3.FPVal(float(x), F64)
    raise Unsupported('not a number: %r' % (x,))


def zbool(x):
    if isinstance(x, bool):
        return z3.BoolVal(x)
    if z3.is_bool(x):
        return x
    raise Unsupported('not a bool: %r' % (x,))


class SymStr:
    def __init__(self, length, chars):
        self.len = length
        self.chars = chars

    def lower(self):
        out = []
        for c in self.chars:
            out.append(z3.If(z3.And(z3.UGE(c, 65), z3.ULE(c, 90)), c + 32, c))
        return SymStr(self.len, out)

    def eq_const(self, s):
        if len(s) > len(self.chars):
            return z3.BoolVal(False)
        conds = [self.len == len(s)]
        for i, ch in enumerate(s):
            conds.append(self.chars[i] == ord(ch))
        return z3.And(*conds)


def str_lower(v):
    if isinstance(v, str):
        return v.lower()
    if isinstance(v, SymStr):
        return v.lower()
    raise Unsupported('lower() of %r' % (v,))


def str_eq(a, b):
    if isinstance(a, str) and isinstance(b, str):
        return z3.BoolVal(a == b)
    if isinstance(a, SymStr) and isinstance(b, str):
        return a.eq_const(b)
    if isinstance(b, SymStr) and isinstance(a, str):
        return b.eq_const(a)
    raise Unsupported('string equality of two symbolic strings')


class SymList:
    def __init__(self, present, n, items):
        self.present = present
        self.n = n
        self.items = items

    def truthy_py(self):      # Python: None and [] are falsy
        return z3.And(self.present, self.n > 0)

    def truthy_js(self):      # JS: null/undefined falsy, [] truthy
        return self.present

    def guarded_items(self, extra=None):
        out = []
        for i, it in enumerate(self.items):
            g = z3.And(self.present, self.n > i)
            if extra is not None:
                g = z3.And(g, extra)
            out.append((g, it))
        return out


class SymSet:
    def __init__(self, items):
        self.items = items      # [(guard, SymStr|str)]

    def contains(self, s):
        if isinstance(s, tuple) and s and s[0] == 'keyalt':
            return z3.Or(*[z3.And(c, self.contains(k)) for c, k in s[1]]) if s[1] else z3.BoolVal(False)
        if isinstance(s, SymStr):
            if all(isinstance(it, str) for _, it in self.items):
                return z3.Or(*[z3.And(zbool(g), s.eq_const(it)) for g, it in self.items]) if self.items else z3.BoolVal(False)
            raise Unsupported('membership of a symbolic string in a symbolic set')
        if not isinstance(s, str):
            raise Unsupported('membership of %r' % (s,))
        return z3.Or(*[z3.And(g, str_eq(it, s)) for g, it in self.items]) if self.items else z3.BoolVal(False)

    def is_const(self):
        return all(isinstance(it, str) and z3.is_true(z3.simplify(zbool(g))) for g, it in self.items)

    def nonempty_intersection(self, other):
        # one of the two must be a set of constants
        if self.is_const() and not other.is_const():
            return other.nonempty_intersection(self)
        consts = []
        for g, it in other.items:
            if not isinstance(it, str) or not z3.is_true(z3.simplify(zbool(g))):
                raise Unsupported('intersection with a non-constant set')
            consts.append(it)
        return z3.Or(*[self.contains(c) for c in consts]) if consts else z3.BoolVal(False)


def const_set(strings):
    return SymSet([(z3.BoolVal(True), s) for s in strings])


class Ret(Exception):
    def __init__(self, value):
        self.value = value


class Path:
    """One execution path: list of (cond) constraints."""
    pass


def merge(paths):
    """paths: [(cond, value)] with mutually exclusive, exhaustive conds -> merged value."""
    if not paths:
        raise Unsupported('no path returns')
    if len(paths) == 1:
        return paths[0][1]
    kinds = set(type(v).__name__ for _, v in paths)
    first = paths[0][1]
    if isinstance(first, dict):
        keys = []
        for _, v in paths:
            if not isinstance(v, dict):
                raise Unsupported('paths return values of different shape')
            for k in v:
                if k not in keys:
                    keys.append(k)
        return {k: merge([(c, v.get(k, 0)) for c, v in paths]) for k in keys}
    if all(isinstance(v, str) or (isinstance(v, tuple) and v and v[0] == 'keyalt') for _, v in paths):
        # a string chosen by the path (e.g. a function returning the NAME of a bucket): guarded alternatives
        alts = []
        for c, v in paths:
            if isinstance(v, str):
                alts.append((c, v))
            else:
                alts.extend((z3.And(c, ci), si) for ci, si in v[1])
        return ('keyalt', alts)
    if all(isinstance(v, bool) or z3.is_bool(v) for _, v in paths):
        out = zbool(paths[-1][1])
        for c, v in reversed(paths[:-1]):
            out = z3.If(c, zbool(v), out)
        return out
    if all(z3.is_fp(v) or (isinstance(v, (int, float)) and not isinstance(v, bool)) for _, v in paths):
        out = fp(paths[-1][1])
        for c, v in reversed(paths[:-1]):
            out = z3.If(c, fp(v), out)
        return out
    raise Unsupported('cannot merge values of kinds %s' % kinds)


# =========================================================================================== Python side
class PyModule:
    def __init__(self, path):
        self.path = path
        src = open(path).read()
        self.tree = ast.parse(src)
        self.funcs = {}
        self.consts = {}
        for node in self.tree.body:
            if isinstance(node, ast.FunctionDef):
                self.funcs[node.name] = node
        for node in self.tree.body:
            tgt = val = None
            if isinstance(node, ast.Assign) and len(node.targets) == 1 and isinstance(node.targets[0], ast.Name):
                tgt, val = node.targets[0].id, node.value
            elif isinstance(node, ast.AnnAssign) and isinstance(node.target, ast.Name) and node.value is not None:
                tgt, val = node.target.id, node.value
            if tgt is None:
                continue
            try:
                self.consts[tgt] = self._const(val)
            except Unsupported:
                pass

    def _const(self, node):
        if isinstance(node, ast.Constant) and isinstance(node.value, (str, int, float)):
            return node.value
        if isinstance(node, ast.Name) and node.id in self.consts:
            return self.consts[node.id]
        if isinstance(node, ast.Set):
            vals = [self._const(e) for e in node.elts]
            if not all(isinstance(v, str) for v in vals):
                raise Unsupported('set of non-strings')
            return const_set(vals)
        if isinstance(node, (ast.Tuple, ast.List)):
            vals = [self._const(e) for e in node.elts]
            if not all(isinstance(v, (str, int, float)) for v in vals):
                raise Unsupported('tuple of non-constants')
            return tuple(vals)
        if isinstance(node, ast.Call) and isinstance(node.func, ast.Name) and node.func.id in ('frozenset', 'set') and len(node.args) == 1:
            inner = self._const(node.args[0])
            if isinstance(inner, tuple) and all(isinstance(v, str) for v in inner):
                return const_set(list(inner))
            if isinstance(inner, SymSet):
                return inner
        raise Unsupported('module constant ' + ast.dump(node)[:80])

    def call(self, name, args):
        """Returns merged result of calling module function `name` on symbolic args."""
        fn = self.funcs.get(name)
        if fn is None:
            raise Unsupported('python function %s not found' % name)
        params = [a.arg for a in fn.args.args]
        if len(params) != len(args):
            raise Unsupported('arity of ' + name)
        results = []
        self._exec_block(fn.body, dict(zip(params, args)), z3.BoolVal(True), results)
        return merge(results)

    # each path: env is copied at forks; results collects (path_cond, return value)
    def _exec_block(self, stmts, env, pc, results):
        """Executes statements; returns list of (env, pc) continuations that fall through."""
        conts = [(env, pc)]
        for st in stmts:
            nxt = []
            for (e, p) in conts:
                nxt.extend(self._exec_stmt(st, e, p, results))
            conts = nxt
            if not conts:
                break
        return conts

    def _exec_stmt(self, st, env, pc, results):
        if isinstance(st, ast.Expr):
            if isinstance(st.value, ast.Constant):
                return [(env, pc)]          # docstring
            self._eval(st.value, env)
            return [(env, pc)]
        if isinstance(st, ast.Return):
            results.append((pc, self._eval(st.value, env)))
            return []
        if isinstance(st, ast.Assign):
            if len(st.targets) != 1:
                raise Unsupported('multiple assignment targets')
            val = self._eval(st.value, env)
            t = st.targets[0]
            env = dict(env)
            if isinstance(t, ast.Name):
                env[t.id] = val
            elif isinstance(t, ast.Subscript) and isinstance(t.value, ast.Name):
                key = self._eval(t.slice, env)
                d = env.get(t.value.id)
                if not isinstance(d, dict):
                    raise Unsupported('subscript assignment')
                d = dict(d)
                if isinstance(key, str):
                    d[key] = val
                elif isinstance(key, tuple) and key and key[0] == 'keyalt':
                    for c, k in key[1]:
                        d[k] = merge([(c, val), (z3.Not(c), d.get(k, 0.0))])
                else:
                    raise Unsupported('subscript assignment with symbolic key')
                env[t.value.id] = d
            else:
                raise Unsupported('assignment target ' + ast.dump(t)[:60])
            return [(env, pc)]
        if isinstance(st, ast.If):
            c = z3.simplify(self._truth(self._eval(st.test, env)))
            out = []
            if not z3.is_false(c):
                out.extend(self._exec_block(st.body, dict(env), z3.And(pc, c), results))
            if not z3.is_true(c):
                out.extend(self._exec_block(st.orelse, dict(env), z3.And(pc, z3.Not(c)), results))
            return out
        if isinstance(st, ast.For) and isinstance(st.target, ast.Name) and not st.orelse:
            it = self._eval(st.iter, env)
            if isinstance(it, SymSet) and all(isinstance(x, str) and z3.is_true(z3.simplify(zbool(g))) for g, x in it.items):
                items = [x for _, x in it.items]
            elif isinstance(it, (tuple, list)) and all(isinstance(x, (str, int, float)) for x in it):
                items = list(it)
            else:
                raise Unsupported('python for-loop over a non-constant collection')
            conts = [(env, pc)]
            for x in items:                      # constant collection: unrolled
                nxt = []
                for (e, p) in conts:
                    e2 = dict(e)
                    e2[st.target.id] = x
                    nxt.extend(self._exec_block(st.body, e2, p, results))
                conts = nxt
            return conts
        if isinstance(st, ast.Pass):
            return [(env, pc)]
        raise Unsupported('python statement ' + type(st).__name__)

    def _truth(self, v):
        if isinstance(v, bool) or z3.is_bool(v):
            return zbool(v)
        if isinstance(v, SymList):
            return v.truthy_py()
        if isinstance(v, SymSet):
            return z3.Or(*[zbool(g) for g, _ in v.items]) if v.items else z3.BoolVal(False)
        if z3.is_fp(v):
            return z3.Not(z3.fpIsZero(v))      # NaN is truthy in Python
        if isinstance(v, (int, float)):
            return z3.BoolVal(bool(v))
        raise Unsupported('truth value of %r' % (v,))

    def _eval(self, n, env):
        if isinstance(n, ast.Constant):
            if n.value is None or isinstance(n.value, (str, int, float, bool)):
                return n.value
            raise Unsupported('constant %r' % (n.value,))
        if isinstance(n, ast.Name):
            if n.id in env:
                return env[n.id]
            if n.id in self.consts:
                return self.consts[n.id]
            raise Unsupported('python name ' + n.id)
        if isinstance(n, ast.Dict):
            d = {}
            for k, v in zip(n.keys, n.values):
                kk = self._eval(k, env)
                if not isinstance(kk, str):
                    raise Unsupported('dict key')
                d[kk] = self._eval(v, env)
            return d
        if isinstance(n, ast.Subscript):
            d = self._eval(n.value, env)
            k = self._eval(n.slice, env)
            if isinstance(d, dict) and isinstance(k, str) and k in d:
                return d[k]
            raise Unsupported('subscript')
        if isinstance(n, ast.BoolOp):
            vals = [self._eval(v, env) for v in n.values]
            if isinstance(n.op, ast.Or) and len(vals) == 2 and isinstance(vals[0], SymList) and isinstance(n.values[1], ast.List) and not n.values[1].elts:
                # (tags or [])
                lst = vals[0]
                return SymList(lst.truthy_py(), lst.n, lst.items)
            ts = [self._truth(v) for v in vals]
            if not all(isinstance(v, bool) or z3.is_bool(v) for v in vals):
                raise Unsupported('and/or returning non-boolean operands')
            return z3.And(*ts) if isinstance(n.op, ast.And) else z3.Or(*ts)
        if isinstance(n, ast.UnaryOp):
            v = self._eval(n.operand, env)
            if isinstance(n.op, ast.Not):
                return z3.Not(self._truth(v))
            if isinstance(n.op, ast.USub):
                return z3.fpNeg(fp(v))
            raise Unsupported('unary op')
        if isinstance(n, ast.BinOp):
            a = self._eval(n.left, env)
            b = self._eval(n.right, env)
            if isinstance(n.op, ast.BitAnd) and isinstance(a, SymSet) and isinstance(b, SymSet):
                return ('nonempty?', a.nonempty_intersection(b))
            if isinstance(n.op, ast.Add):
                return z3.fpAdd(RNE, fp(a), fp(b))
            if isinstance(n.op, ast.Sub):
                return z3.fpSub(RNE, fp(a), fp(b))
            if isinstance(n.op, ast.Mult):
                return z3.fpMul(RNE, fp(a), fp(b))
            raise Unsupported('binary op ' + type(n.op).__name__)
        if isinstance(n, ast.Compare):
            if len(n.ops) != 1:
                raise Unsupported('comparison chain')
            a = self._eval(n.left, env)
            b = self._eval(n.comparators[0], env)
            op = n.ops[0]
            if isinstance(op, (ast.In, ast.NotIn)):
                if isinstance(b, tuple) and all(isinstance(x, str) for x in b):
                    b = const_set(list(b))
                if not isinstance(b, SymSet):
                    raise Unsupported('in on non-set')
                if isinstance(a, SymStr):
                    if not all(isinstance(x, str) for _, x in b.items):
                        raise Unsupported('symbolic string in symbolic set')
                    r = z3.Or(*[z3.And(zbool(g), a.eq_const(x)) for g, x in b.items]) if b.items else z3.BoolVal(False)
                else:
                    r = b.contains(a)
                return r if isinstance(op, ast.In) else z3.Not(r)
            if isinstance(op, (ast.Eq, ast.NotEq)) and (isinstance(a, (str, SymStr)) or isinstance(b, (str, SymStr))):
                r = str_eq(a, b)
                return r if isinstance(op, ast.Eq) else z3.Not(r)
            return _num_compare(type(op).__name__, a, b)
        if isinstance(n, ast.SetComp):
            if len(n.generators) != 1 or n.generators[0].ifs or not isinstance(n.generators[0].target, ast.Name):
                raise Unsupported('set comprehension shape')
            it = self._eval(n.generators[0].iter, env)
            if not isinstance(it, SymList):
                raise Unsupported('comprehension over non-list')
            var = n.generators[0].target.id
            items = []
            for g, s in it.guarded_items():
                e2 = dict(env)
                e2[var] = s
                items.append((g, self._eval(n.elt, e2)))
            return SymSet(items)
        if isinstance(n, ast.Call):
            if isinstance(n.func, ast.Attribute):
                if isinstance(n.func.value, ast.Name) and n.func.value.id == 'dict' and 'dict' not in env and n.func.attr == 'fromkeys' and len(n.args) in (1, 2):
                    keys = self._eval(n.args[0], env)
                    if isinstance(keys, SymSet) and all(isinstance(x, str) and z3.is_true(z3.simplify(zbool(g))) for g, x in keys.items):
                        keys = tuple(x for _, x in keys.items)
                    if not (isinstance(keys, tuple) and all(isinstance(k, str) for k in keys)):
                        raise Unsupported('dict.fromkeys over non-constant keys')
                    v0 = self._eval(n.args[1], env) if len(n.args) == 2 else None
                    return {k: v0 for k in keys}
                obj = self._eval(n.func.value, env)
                if n.func.attr == 'lower' and not n.args:
                    return str_lower(obj)
                if n.func.attr in ('isdisjoint', 'intersection') and len(n.args) == 1 and isinstance(obj, SymSet):
                    other = self._eval(n.args[0], env)
                    if isinstance(other, tuple) and all(isinstance(x, str) for x in other):
                        other = const_set(list(other))
                    if not isinstance(other, SymSet):
                        raise Unsupported('set method on a non-set argument')
                    ne = obj.nonempty_intersection(other)
                    return z3.Not(ne) if n.func.attr == 'isdisjoint' else ('nonempty?', ne)
                raise Unsupported('python method ' + n.func.attr)
            if isinstance(n.func, ast.Name):
                f = n.func.id
                args = [self._eval(a, env) for a in n.args]
                if f == 'abs' and len(args) == 1:
                    return z3.fpAbs(fp(args[0]))
                if f in ('any', 'all') and len(args) == 1 and isinstance(args[0], tuple) and args[0][0] == 'guarded-seq':
                    seq = args[0][1]
                    if f == 'any':
                        return z3.Or(*[z3.And(g, self._truth(v)) for g, v in seq]) if seq else z3.BoolVal(False)
                    return z3.And(*[z3.Implies(g, self._truth(v)) for g, v in seq]) if seq else z3.BoolVal(True)
                if f in ('set', 'frozenset', 'list', 'tuple') and len(args) == 1 and isinstance(args[0], tuple) and args[0] and args[0][0] == 'guarded-seq':
                    return SymSet([(g, v) for g, v in args[0][1]])
                if f == 'bool' and len(args) == 1:
                    v = args[0]
                    if isinstance(v, tuple) and v[0] == 'nonempty?':
                        return v[1]
                    return self._truth(v)
                if f in self.funcs:
                    return self.call(f, args)
                raise Unsupported('python call ' + f)
        if isinstance(n, ast.List) and not n.elts:
            return SymList(z3.BoolVal(True), z3.IntVal(0), [])
        if isinstance(n, (ast.Tuple, ast.List)):
            vals = [self._eval(e, env) for e in n.elts]
            if all(isinstance(v, (str, int, float)) for v in vals):
                return tuple(vals)
            raise Unsupported('tuple/list of non-constants')
        if isinstance(n, ast.IfExp):
            c = self._truth(self._eval(n.test, env))
            a, b = self._eval(n.body, env), self._eval(n.orelse, env)
            if isinstance(a, str) and isinstance(b, str):
                return ('keyalt', [(c, a), (z3.Not(c), b)])
            return merge([(c, a), (z3.Not(c), b)])
        if isinstance(n, ast.GeneratorExp) or isinstance(n, ast.ListComp):
            if len(n.generators) != 1 or not isinstance(n.generators[0].target, ast.Name):
                raise Unsupported('comprehension shape')
            g0 = n.generators[0]
            it = self._eval(g0.iter, env)
            if isinstance(it, SymList):
                pairs = it.guarded_items()
            elif isinstance(it, SymSet):
                pairs = list(it.items)
            elif isinstance(it, tuple):
                pairs = [(z3.BoolVal(True), x) for x in it]
            else:
                raise Unsupported('comprehension over %r' % (it,))
            out = []
            for g, x in pairs:
                e2 = dict(env)
                e2[g0.target.id] = x
                cond = zbool(g)
                for c in g0.ifs:
                    cond = z3.And(cond, self._truth(self._eval(c, e2)))
                out.append((cond, self._eval(n.elt, e2)))
            return ('guarded-seq', out)
        raise Unsupported('python expression ' + type(n).__name__)


def _num_compare(opname, a, b):
    a, b = fp(a), fp(b)
    if opname in ('Gt', '>'):
        return z3.fpGT(a, b)
    if opname in ('GtE', '>='):
        return z3.fpGEQ(a, b)
    if opname in ('Lt', '<'):
        return z3.fpLT(a, b)
    if opname in ('LtE', '<='):
        return z3.fpLEQ(a, b)
    if opname in ('Eq', '==', '==='):
        return z3.fpEQ(a, b)
    if opname in ('NotEq', '!=', '!=='):
        return z3.Not(z3.fpEQ(a, b))
    raise Unsupported('comparison ' + opname)


# =========================================================================================== JS side
_JS_DUMP = r"""
const acorn = require('internal/deps/acorn/acorn/dist/acorn');
const fs = require('fs');
const src = fs.readFileSync(process.argv[1], 'utf8');
const ast = acorn.parse(src, {ecmaVersion: 'latest', sourceType: 'script'});
const keep = ast.body.filter(n => n.type === 'FunctionDeclaration' || n.type === 'VariableDeclaration');
process.stdout.write(JSON.stringify(keep));
"""


def js_toplevel(path):
    p = subprocess.run(['node', '--expose-internals', '-e', _JS_DUMP, path], capture_output=True, text=True, timeout=60)
    if p.returncode != 0:
        raise Unsupported('node/acorn failed: ' + p.stderr[-400:])
    return json.loads(p.stdout)


class JsModule:
    def __init__(self, path):
        self.path = path
        self.src = open(path).read()
        self.nodes = js_toplevel(path)
        self.funcs = {n['id']['name']: n for n in self.nodes if n['type'] == 'FunctionDeclaration'}
        self.consts = {}
        self.const_nodes = {}
        for n in self.nodes:
            if n['type'] == 'VariableDeclaration' and n['kind'] == 'const':
                for d in n['declarations']:
                    if d['id']['type'] == 'Identifier' and d.get('init') is not None:
                        try:
                            self.consts[d['id']['name']] = self._const(d['init'])
                            self.const_nodes[d['id']['name']] = n
                        except Unsupported:
                            pass

    def _const(self, n):
        if n['type'] == 'Literal' and isinstance(n['value'], (str, int, float)) and not isinstance(n['value'], bool):
            return n['value']
        if n['type'] == 'Identifier' and n['name'] in self.consts:
            return self.consts[n['name']]
        if n['type'] == 'NewExpression' and n['callee'].get('name') == 'Set' and len(n['arguments']) == 1 \
                and n['arguments'][0]['type'] == 'ArrayExpression':
            vals = [self._const(e) for e in n['arguments'][0]['elements']]
            if not all(isinstance(v, str) for v in vals):
                raise Unsupported('Set of non-strings')
            return const_set(vals)
        raise Unsupported('js constant')

    def source_for(self, names):
        """Source text of the top-level constants and the named functions (for replay under node)."""
        parts = []
        seen = set()
        pure = ('Literal', 'TemplateLiteral', 'ArrayExpression', 'ObjectExpression', 'NewExpression', 'UnaryExpression',
                'ArrowFunctionExpression', 'FunctionExpression')
        for n in self.nodes:
            # every top-level declaration whose initialiser has no side effect (whether or not the translator can encode
            # it): the functions may refer to it
            if n['type'] == 'VariableDeclaration' and (any(d['id'].get('name') in self.consts for d in n['declarations'])
                                                       or all(d['id']['type'] == 'Identifier' and (d.get('init') is None or d['init']['type'] in pure) for d in n['declarations'])):
                if n['start'] not in seen:
                    seen.add(n['start'])
                    parts.append(self.src[n['start']:n['end']])
            if n['type'] == 'FunctionDeclaration' and n['id']['name'] in names:
                parts.append(self.src[n['start']:n['end']])
        return '\n'.join(parts)

    def call(self, name, args):
        fn = self.funcs.get(name)
        if fn is None:
            raise Unsupported('js function %s not found' % name)
        if not all(p.get('type') == 'Identifier' for p in fn['params']):
            raise Unsupported('js parameter that is not a plain identifier (default value / destructuring) in ' + name)
        params = [p['name'] for p in fn['params']]
        if len(params) != len(args):
            raise Unsupported('arity of ' + name)
        results = []
        self._block(fn['body']['body'], dict(zip(params, args)), z3.BoolVal(True), results)
        return merge(results)

    def _block(self, stmts, env, pc, results):
        conts = [(env, pc)]
        for st in stmts:
            nxt = []
            for (e, p) in conts:
                nxt.extend(self._stmt(st, e, p, results))
            conts = nxt
            if not conts:
                break
        return conts

    def _stmt(self, st, env, pc, results):
        t = st['type']
        if t == 'ReturnStatement':
            results.append((pc, self._eval(st['argument'], env)))
            return []
        if t == 'VariableDeclaration':
            env = dict(env)
            for d in st['declarations']:
                if d['id']['type'] != 'Identifier':
                    raise Unsupported('destructuring')
                env[d['id']['name']] = self._eval(d['init'], env) if d.get('init') is not None else None
            return [(env, pc)]
        if t == 'BlockStatement':
            return self._block(st['body'], env, pc, results)
        if t == 'IfStatement':
            c = z3.simplify(self._truth(self._eval(st['test'], env)))
            out = []
            if not z3.is_false(c):
                out.extend(self._stmt(st['consequent'], dict(env), z3.And(pc, c), results))
            if not z3.is_true(c):
                if st.get('alternate') is not None:
                    out.extend(self._stmt(st['alternate'], dict(env), z3.And(pc, z3.Not(c)), results))
                else:
                    out.append((dict(env), z3.And(pc, z3.Not(c))))
            return out
        if t == 'ExpressionStatement':
            e = st['expression']
            if e['type'] == 'AssignmentExpression' and e['operator'] == '=':
                val = self._eval(e['right'], env)
                left = e['left']
                env = dict(env)
                if left['type'] == 'Identifier':
                    env[left['name']] = val
                elif left['type'] == 'MemberExpression' and left['object']['type'] == 'Identifier':
                    key = left['property']['name'] if not left['computed'] else self._eval(left['property'], env)
                    d = env.get(left['object']['name'])
                    if not isinstance(d, dict):
                        raise Unsupported('js member assignment')
                    d = dict(d)
                    if isinstance(key, str):
                        d[key] = val          # JS objects accept new keys
                    elif isinstance(key, tuple) and key[0] == 'keyalt':
                        for c, k in key[1]:
                            old = d.get(k, 0)
                            d[k] = merge([(c, val), (z3.Not(c), old)])
                    else:
                        raise Unsupported('js member assignment with symbolic key')
                    env[left['object']['name']] = d
                else:
                    raise Unsupported('js assignment target')
                return [(env, pc)]
            self._eval(e, env)
            return [(env, pc)]
        if t == 'ContinueStatement':
            self._loop_continue.append((env, pc))
            return []
        if t == 'BreakStatement':
            self._loop_break.append((env, pc))
            return []
        if t == 'ForOfStatement':
            it = self._eval(st['right'], env)
            if not isinstance(it, SymSet) or not all(isinstance(x, str) for _, x in it.items):
                raise Unsupported('for-of over non-constant set')
            decl = st['left']
            if decl['type'] != 'VariableDeclaration' or decl['declarations'][0]['id']['type'] != 'Identifier':
                raise Unsupported('for-of binding')
            var = decl['declarations'][0]['id']['name']
            conts = [(env, pc)]
            broken = []
            for _, s in it.items:          # constant set: unrolled in declaration order
                nxt = []
                saved = (getattr(self, '_loop_continue', None), getattr(self, '_loop_break', None))
                self._loop_continue, self._loop_break = [], []
                for (e, p) in conts:
                    e2 = dict(e)
                    e2[var] = s
                    nxt.extend(self._stmt(st['body'], e2, p, results))
                nxt.extend(self._loop_continue)
                broken.extend(self._loop_break)
                self._loop_continue, self._loop_break = saved
                conts = nxt
            return conts + broken
        raise Unsupported('js statement ' + t)

    def _truth(self, v):
        if isinstance(v, bool) or z3.is_bool(v):
            return zbool(v)
        if isinstance(v, SymList):
            return v.truthy_js()
        if z3.is_fp(v):
            return z3.And(z3.Not(z3.fpIsZero(v)), z3.Not(z3.fpIsNaN(v)))   # NaN and 0 are falsy in JS
        if isinstance(v, (int, float)):
            return z3.BoolVal(bool(v) and v == v)
        if isinstance(v, str):
            return z3.BoolVal(bool(v))
        raise Unsupported('js truth value of %r' % (v,))

    def _eval(self, n, env):
        t = n['type']
        if t == 'Literal':
            v = n['value']
            if v is None or isinstance(v, (str, int, float, bool)):
                return v
            raise Unsupported('js literal')
        if t == 'Identifier':
            if n['name'] in env:
                return env[n['name']]
            if n['name'] in self.consts:
                return self.consts[n['name']]
            raise Unsupported('js name ' + n['name'])
        if t == 'ObjectExpression':
            d = {}
            for p in n['properties']:
                if p['type'] != 'Property' or p['computed']:
                    raise Unsupported('object property')
                k = p['key'].get('name', p['key'].get('value'))
                d[k] = self._eval(p['value'], env)
            return d
        if t == 'ArrayExpression' and not n['elements']:
            return SymList(z3.BoolVal(True), z3.IntVal(0), [])
        if t == 'ArrayExpression' and len(n['elements']) == 1 and n['elements'][0]['type'] == 'SpreadElement':
            v = self._eval(n['elements'][0]['argument'], env)       # [...set]: the elements of the set, as a sequence
            if isinstance(v, SymSet):
                return v
            raise Unsupported('spread of a non-set')
        if t == 'ArrayExpression' and all(e is not None and e['type'] == 'Literal' and isinstance(e.get('value'), str) for e in n['elements']):
            return const_set([e['value'] for e in n['elements']])
        if t == 'LogicalExpression':
            a = self._eval(n['left'], env)
            if n['operator'] == '||' and isinstance(a, SymList) and n['right']['type'] == 'ArrayExpression' and not n['right']['elements']:
                return SymList(a.truthy_js(), a.n, a.items)
            b = self._eval(n['right'], env)
            if not all(isinstance(v, bool) or z3.is_bool(v) for v in (a, b)):
                raise Unsupported('js logical on non-booleans')
            return z3.Or(zbool(a), zbool(b)) if n['operator'] == '||' else z3.And(zbool(a), zbool(b))
        if t == 'UnaryExpression':
            v = self._eval(n['argument'], env)
            if n['operator'] == '!':
                return z3.Not(self._truth(v))
            if n['operator'] == '-':
                return z3.fpNeg(fp(v))
            raise Unsupported('js unary ' + n['operator'])
        if t == 'BinaryExpression':
            a = self._eval(n['left'], env)
            b = self._eval(n['right'], env)
            op = n['operator']
            if op in ('===', '==', '!==', '!=') and (isinstance(a, (str, SymStr)) or isinstance(b, (str, SymStr))):
                r = str_eq(a, b)
                return r if op in ('===', '==') else z3.Not(r)
            if op == '+':
                return z3.fpAdd(RNE, fp(a), fp(b))
            if op == '-':
                return z3.fpSub(RNE, fp(a), fp(b))
            if op == '*':
                return z3.fpMul(RNE, fp(a), fp(b))
            return _num_compare(op, a, b)
        if t == 'ConditionalExpression':
            c = self._truth(self._eval(n['test'], env))
            a, b = self._eval(n['consequent'], env), self._eval(n['alternate'], env)
            if isinstance(a, str) and isinstance(b, str):
                return ('keyalt', [(c, a), (z3.Not(c), b)])
            return merge([(c, a), (z3.Not(c), b)])
        if t == 'MemberExpression' and not n['computed']:
            o = self._eval(n['object'], env)
            if isinstance(o, dict) and n['property']['name'] in o:
                return o[n['property']['name']]
            raise Unsupported('js member read')
        if t == 'NewExpression' and n['callee'].get('name') == 'Set' and len(n['arguments']) == 1:
            a = self._eval(n['arguments'][0], env)
            if isinstance(a, SymSet):
                return a
            raise Unsupported('new Set(...)')
        if t == 'CallExpression':
            c = n['callee']
            if c['type'] == 'MemberExpression' and not c['computed']:
                m = c['property']['name']
                if c['object']['type'] == 'Identifier' and c['object']['name'] == 'Math' and m == 'abs':
                    return z3.fpAbs(fp(self._eval(n['arguments'][0], env)))
                obj = self._eval(c['object'], env)
                if m == 'has' and isinstance(obj, SymSet):
                    return obj.contains(self._eval(n['arguments'][0], env))
                if m == 'toLowerCase' and not n['arguments']:
                    return str_lower(obj)
                if m in ('some', 'every') and isinstance(obj, (SymSet, SymList)) and len(n['arguments']) == 1:
                    f = n['arguments'][0]
                    if f['type'] != 'ArrowFunctionExpression' or len(f['params']) != 1 or f['body']['type'] == 'BlockStatement':
                        raise Unsupported(m + ' callback shape')
                    var = f['params'][0]['name']
                    pairs = obj.guarded_items() if isinstance(obj, SymList) else list(obj.items)
                    terms = []
                    for g, x in pairs:
                        e2 = dict(env)
                        e2[var] = x
                        t_ = self._truth(self._eval(f['body'], e2))
                        terms.append(z3.And(zbool(g), t_) if m == 'some' else z3.Implies(zbool(g), t_))
                    if m == 'some':
                        return z3.Or(*terms) if terms else z3.BoolVal(False)
                    return z3.And(*terms) if terms else z3.BoolVal(True)
                if m == 'includes' and isinstance(obj, SymSet) and len(n['arguments']) == 1:
                    return obj.contains(self._eval(n['arguments'][0], env))
                if m == 'map' and isinstance(obj, SymList) and len(n['arguments']) == 1:
                    f = n['arguments'][0]
                    if f['type'] != 'ArrowFunctionExpression' or len(f['params']) != 1 or f['body']['type'] == 'BlockStatement':
                        raise Unsupported('map callback shape')
                    var = f['params'][0]['name']
                    items = []
                    for g, s in obj.guarded_items():
                        e2 = dict(env)
                        e2[var] = s
                        items.append((g, self._eval(f['body'], e2)))
                    return SymSet(items)      # only ever wrapped in new Set(...)
                raise Unsupported('js method ' + m)
            if c['type'] == 'Identifier' and c['name'] in self.funcs:
                return self.call(c['name'], [self._eval(a, env) for a in n['arguments']])
            raise Unsupported('js call')
        raise Unsupported('js expression ' + t)


# =========================================================================================== inputs
def sym_inputs(k=K_TAGS, l=L_CHARS, prefix=''):
    amount = z3.FP(prefix + 'amount', F64)
    present = z3.Bool(prefix + 'tags_present')
    n = z3.Int(prefix + 'tags_n')
    cons = [n >= 0, n <= k]
    items = []
    for i in range(k):
        ln = z3.Int(f'{prefix}t{i}_len')
        chars = [z3.BitVec(f'{prefix}t{i}_c{j}', 8) for j in range(l)]
        cons += [ln >= 0, ln <= l] + [z3.ULT(c, 128) for c in chars]
        items.append(SymStr(ln, chars))
    return amount, SymList(present, n, items), cons


def model_inputs(m, amount, tags):
    """Concrete (amount: float, tags: list[str] | None) from a z3 model."""
    import struct
    av = m.eval(amount, model_completion=True)
    bv = m.eval(z3.fpToIEEEBV(av), model_completion=True).as_long()
    a = struct.unpack('<d', struct.pack('<Q', bv))[0]
    if not z3.is_true(m.eval(tags.present, model_completion=True)):
        return a, None
    n = m.eval(tags.n, model_completion=True).as_long()
    out = []
    for i in range(n):
        it = tags.items[i]
        ln = m.eval(it.len, model_completion=True).as_long()
        out.append(''.join(chr(m.eval(c, model_completion=True).as_long()) for c in it.chars[:ln]))
    return a, out


def same_number(a, b):
    """IEEE equality (so -0 = +0), NaN only with NaN."""
    a, b = fp(a), fp(b)
    return z3.Or(z3.fpEQ(a, b), z3.And(z3.fpIsNaN(a), z3.fpIsNaN(b)))


def cross_check(solver, expect, timeout_s=120):
    """Re-decide the assertions of `solver` with the z3 4.8.12 and cvc5 binaries; returns dict of verdicts.
    Any disagreement with `expect` ('sat'/'unsat') or an `(error` line is reported by the caller as a harness error."""
    import tempfile
    smt = solver.to_smt2()
    out = {}
    with tempfile.NamedTemporaryFile('w', suffix='.smt2', delete=False) as f:
        f.write(smt)
        path = f.name
    try:
        for name, cmd in (('z3-4.8.12', ['/usr/bin/z3', '-T:%d' % timeout_s, path]),
                          ('cvc5-1.0', ['cvc5', '--tlimit=%d' % (timeout_s * 1000), path])):
            try:
                p = subprocess.run(cmd, capture_output=True, text=True, timeout=timeout_s + 20)
                txt = (p.stdout + p.stderr).strip()
                if '(error' in txt:
                    out[name] = 'error: ' + txt[:200]
                else:
                    out[name] = txt.split()[0] if txt else 'no output'
            except Exception as e:   # noqa
                out[name] = 'failed: ' + repr(e)[:100]
    finally:
        os.unlink(path)
    return out
