"""Run ONE Engine-B obligation: the harness factory returns an object with .query() -> dict
{status: CONFIRMED|REFUTED|UNKNOWN|ERROR, args: {...} | None, message, solver_queries, solver_time_s, extra}.
Prints one @@RESULT@@ JSON line (same protocol as engine.ch.worker)."""
import importlib
import json
import sys
import time
import traceback


def main():
    mod_name, ob_id, tier, seed = sys.argv[1:5]
    t0 = time.time()
    out = {'id': ob_id, 'twin': False, 'status': 'ERROR', 'message': '', 'args': None, 'paths': 0,
           'solver_queries': 0, 'solver_time_s': 0.0}
    try:
        from engine import jsonx
        mod = importlib.import_module(mod_name)
        obs = {o.id: o for o in mod.obligations(tier, int(seed))}
        o = obs[ob_id]
        fn = getattr(mod, o.factory)(**o.params)
        r = fn.query()
        out.update({k: v for k, v in r.items() if k != 'args'})
        if r.get('args') is not None:
            out['args'] = jsonx.enc(r['args'])
    except BaseException as e:  # noqa
        out['status'] = 'UNKNOWN' if type(e).__name__ == 'HarnessAssumption' else 'ERROR'
        out['message'] = repr(e) + ' ' + traceback.format_exc()[-1500:]
    out['wall_s'] = round(time.time() - t0, 2)
    sys.stdout.write('\n@@RESULT@@' + json.dumps(out) + '\n')


if __name__ == '__main__':
    main()
