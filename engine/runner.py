"""Property runner: schedules obligations over worker processes, replays counterexamples,
applies the known-findings list, writes evidence, prints verdict lines and returns the exit code.

exit 0  property held on everything explored (inconclusive obligations are listed, never counted
        as discharged)
exit 1  reproduced violation not covered by an open known finding  (VIOLATION line printed)
exit 2  harness error (vacuous obligation, non-reproducing counterexample, worker crash)
"""
import hashlib
import importlib
import json
import os
import subprocess
import sys
import time
from concurrent.futures import ThreadPoolExecutor

ROOT = os.path.dirname(os.path.dirname(os.path.abspath(__file__)))
PY = os.path.join(ROOT, '.venv', 'bin', 'python')
if not os.path.exists(PY):          # a snapshot of the committed files has no virtualenv: use /verif's
    PY = '/verif/.venv/bin/python'
ENGINE_WORKER = {'crosshair': 'engine.ch.worker', 'smt': 'engine.smt.worker', 'concrete': 'engine.concrete_worker'}


def _env():
    env = dict(os.environ)
    repo = env.get('VERIF_REPO', '/repo')
    env['PYTHONPATH'] = ROOT + os.pathsep + repo + '/src' + os.pathsep + env.get('PYTHONPATH', '')
    env['TALLY_VERIF'] = '1'
    env['PYTHONHASHSEED'] = '0'
    env.setdefault('PYTHONDONTWRITEBYTECODE', '1')
    return env


def _parse(stdout):
    for line in reversed(stdout.splitlines()):
        if line.startswith('@@RESULT@@'):
            return json.loads(line[len('@@RESULT@@'):])
    return None


def run_worker(mod_name, o, tier, seed, twin, deadline, cap=None):
    wall = (min(o.timeout, cap) if cap else o.timeout) * 1.5 + 30
    if twin:
        wall = min(wall, 90)
    remaining = deadline - time.time()
    if remaining < 5:
        return {'id': o.id, 'twin': twin, 'status': 'NOT_RUN', 'message': 'property wall-clock budget exhausted',
                'paths': 0, 'solver_queries': 0, 'solver_time_s': 0.0, 'wall_s': 0.0}
    wall = min(wall, remaining)
    cmd = [PY, '-m', ENGINE_WORKER[o.engine], mod_name, o.id, tier, str(seed)] + (['--twin'] if twin else [])
    t0 = time.time()
    try:
        p = subprocess.run(cmd, cwd=ROOT, env=_env(), capture_output=True, text=True, timeout=wall)
        r = _parse(p.stdout)
        if r is None:
            r = {'id': o.id, 'twin': twin, 'status': 'ERROR',
                 'message': 'worker produced no result: rc=%s %s %s' % (p.returncode, p.stdout[-500:], p.stderr[-1500:]),
                 'paths': 0, 'solver_queries': 0, 'solver_time_s': 0.0}
    except subprocess.TimeoutExpired:
        r = {'id': o.id, 'twin': twin, 'status': 'KILLED', 'message': 'wall-clock kill after %.0fs' % wall,
             'paths': 0, 'solver_queries': 0, 'solver_time_s': 0.0}
    r['wall_s'] = round(time.time() - t0, 2)
    return r


def replay(mod_name, o, tier, seed, args, keep_path=None):
    os.makedirs(os.path.join(ROOT, 'replays'), exist_ok=True)
    blob = json.dumps(args, sort_keys=True)
    h = hashlib.sha1((o.id + blob).encode()).hexdigest()[:10]
    pid = mod_name.split('.')[-1].split('_')[0]
    path = keep_path or os.path.join(ROOT, 'replays', f'{pid}-{h}.json')
    doc = {'property': pid, 'module': mod_name, 'obligation': o.id, 'tier': tier, 'seed': seed, 'args': args,
           'how_to_rerun': f'./check {pid} --replay {path}'}
    with open(path, 'w') as f:
        json.dump(doc, f, indent=1)
    cmd = [PY, '-m', 'engine.ch.replay', mod_name, o.id, tier, str(seed), path]
    try:
        p = subprocess.run(cmd, cwd=ROOT, env=_env(), capture_output=True, text=True, timeout=300)
        r = _parse(p.stdout) or {'reproduced': False, 'error': (p.stdout[-500:] + p.stderr[-1500:])}
    except subprocess.TimeoutExpired:
        r = {'reproduced': False, 'error': 'replay timed out'}
    doc['replay_result'] = r
    with open(path, 'w') as f:
        json.dump(doc, f, indent=1)
    return path, r


def load_known(pid):
    path = os.path.join(ROOT, 'known_findings.json')
    if not os.path.exists(path):
        return {}
    with open(path) as f:
        data = json.load(f)
    return {e['key']: e for e in data.get('findings', []) if e.get('property') == pid}


def run_property(pid, tier='quick', seed=0, only=None, jobs=None):
    """One property; every temporary file of the run (rule files, scratch budgets, solver scripts, node programs - also those
    of the workers, which end with os._exit) lives under one scratch directory that is removed afterwards."""
    import shutil
    import tempfile
    scratch = tempfile.mkdtemp(prefix='verif_run_%s_' % pid)
    saved = os.environ.get('TMPDIR')
    os.environ['TMPDIR'] = scratch
    tempfile.tempdir = None
    try:
        return _run_property(pid, tier, seed, only, jobs)
    finally:
        if saved is None:
            os.environ.pop('TMPDIR', None)
        else:
            os.environ['TMPDIR'] = saved
        tempfile.tempdir = None
        shutil.rmtree(scratch, ignore_errors=True)


def _run_property(pid, tier='quick', seed=0, only=None, jobs=None):
    t_start = time.time()
    mod_name = 'harness.' + pid
    sys.path.insert(0, ROOT)
    os.environ['TALLY_VERIF'] = '1'
    mod = importlib.import_module(mod_name)
    if hasattr(mod, 'prepare'):
        mod.prepare(tier, seed)
    obs = mod.obligations(tier, seed)
    if only:
        obs = [o for o in obs if any(s in o.id for s in only)]
    ids = [o.id for o in obs]
    assert len(ids) == len(set(ids)), 'duplicate obligation ids'
    known = load_known(pid)
    budget = getattr(mod, 'WALL_BUDGET', {}).get(tier, 600 if tier == "quick" else 1200)
    deadline = t_start + budget
    jobs = jobs or int(os.environ.get('VERIF_JOBS', os.cpu_count() or 4))

    # An obligation and its reachability twin are one task (the twin - at most 30 s - runs right after a CONFIRMED main, even
    # when the wall budget has just run out: a verdict is never left half-decided).  Short obligations first, and no single
    # obligation may use more than budget / min(3, obligations per worker) (VERIF_TIMEOUT_CAP, honoured by the workers).
    rounds = max(1, min(3, -(-len(obs) // max(1, jobs))))        # how many obligations each worker has to take, at most 3 counted
    cap = 0.9 * budget / rounds
    os.environ['VERIF_TIMEOUT_CAP'] = str(cap)

    def run_pair(o):
        r = run_worker(mod_name, o, tier, seed, False, deadline, cap)
        tw = None
        if o.twin and o.engine == 'crosshair' and r.get('status') == 'CONFIRMED':
            tw = run_worker(mod_name, o, tier, seed, True, max(deadline, time.time() + 100), cap)
        return r, tw
    order = sorted(obs, key=lambda o: min(o.timeout, cap))
    results = {}
    with ThreadPoolExecutor(max_workers=jobs) as ex:
        futs = {ex.submit(run_pair, o): o for o in order}
        for fut, o in futs.items():
            r, tw = fut.result()
            results[(o.id, False)] = r
            if tw is not None:
                results[(o.id, True)] = tw

    violations, harness_errors, known_lines = [], [], []
    discharged = inconclusive = refuted_known = 0
    samples = []
    total_paths = total_q = 0
    total_st = 0.0
    nontrivial = 0
    for o in obs:
        r = results[(o.id, False)]
        tw = results.get((o.id, True))
        total_paths += r.get('paths', 0) + (tw.get('paths', 0) if tw else 0)
        total_q += r.get('solver_queries', 0) + (tw.get('solver_queries', 0) if tw else 0)
        total_st += r.get('solver_time_s', 0.0) + (tw.get('solver_time_s', 0.0) if tw else 0.0)
        verdict = None
        st = r['status']
        twin_ok = (tw is None) or tw['status'] == 'REFUTED'
        entry = {'id': o.id, 'group': o.group, 'kind': o.kind, 'bounds': o.bounds, 'engine': o.engine,
                 'status': st, 'paths': r.get('paths', 0), 'solver_queries': r.get('solver_queries', 0),
                 'solver_time_s': r.get('solver_time_s', 0.0), 'wall_s': r.get('wall_s'),
                 'twin': tw['status'] if tw else 'n/a'}
        if r.get('patches'):
            entry['patches'] = r['patches']
        if r.get('extra'):
            entry['extra'] = r['extra']
        if st == 'CONFIRMED':
            if tw is not None and tw['status'] == 'CONFIRMED':
                verdict = 'vacuous'
                harness_errors.append(f'{o.id}: reachability twin was CONFIRMED (obligation is vacuous)')
            elif tw is not None and tw['status'] == 'PRE_UNSAT':
                # CrossHair says "unable to meet precondition" also when every satisfying path was cut by the twin's 30 s limit;
                # the main run was CONFIRMED (not "unable to meet precondition"), so the precondition is satisfiable: the twin
                # simply decided nothing => reachability not shown, not counted as discharged
                verdict = 'inconclusive'
                entry['note'] = 'twin could not meet the precondition within its time limit: reachability not shown, not counted'
                inconclusive += 1
            elif not twin_ok:
                verdict = 'inconclusive'
                entry['note'] = 'twin not refuted (%s): reachability not shown, not counted' % tw['status']
                inconclusive += 1
            else:
                verdict = 'discharged'
                if o.kind == 'known':
                    entry['note'] = 'listed finding no longer reproduces'
                discharged += 1
                if r.get('paths', 0) >= 2 or o.engine != 'crosshair':
                    nontrivial += 1
        elif st in ('UNKNOWN', 'KILLED', 'NOT_RUN'):
            verdict = 'inconclusive'
            inconclusive += 1
        elif st == 'PRE_UNSAT':
            verdict = 'harness_error'
            harness_errors.append(f'{o.id}: unable to meet precondition: {r.get("message", "")[:300]}')
        elif st == 'ERROR':
            verdict = 'harness_error'
            harness_errors.append(f'{o.id}: worker error: {r.get("message", "")[:600]}')
        elif st == 'REFUTED':
            entry['message'] = r.get('message', '')[:600]
            if r.get('args') is None:
                verdict = 'harness_error'
                harness_errors.append(f'{o.id}: refuted but counterexample not captured: {r.get("message", "")[:600]} {r.get("traceback", "")[-600:]}')
            else:
                path, rr = replay(mod_name, o, tier, seed, r['args'])
                entry['counterexample'] = r['args']
                entry['replay'] = {'path': path, 'reproduced': rr.get('reproduced'), 'observed': rr.get('observed'),
                                   'exception': (rr.get('exception') or '')[:300], 'detail': rr.get('detail')}
                if not rr.get('reproduced'):
                    verdict = 'harness_error'
                    harness_errors.append(f'{o.id}: counterexample did not reproduce on the real code: {json.dumps(rr)[:600]}')
                elif o.kind == 'known' and o.known_key in known and known[o.known_key].get('status') == 'open':
                    verdict = 'known_finding'
                    refuted_known += 1
                    known_lines.append(f'KNOWN-FINDING: property={pid} {o.known_key}: {known[o.known_key]["what"]}')
                else:
                    verdict = 'violation'
                    violations.append((o, path, rr))
        entry['verdict'] = verdict
        samples.append(entry)

    wall = round(time.time() - t_start, 2)
    level = getattr(mod, 'LEVEL', 'other')
    n_ob = len(obs)
    cov = {
        'explanation': getattr(mod, 'EXPLANATION', ''),
        'functions_encoded': getattr(mod, 'FUNCTIONS', []),
        'bounds': getattr(mod, 'BOUNDS', ''),
        'outside_claim': getattr(mod, 'OUTSIDE', ''),
        'stubs': getattr(mod, 'STUBS', []),
        'obligations': n_ob,
        'discharged': discharged,
        'inconclusive': inconclusive,
        'refuted_known': refuted_known,
        'violations': len(violations),
        'harness_errors': harness_errors,
        'paths_explored': total_paths,
        'solver_queries': total_q,
        'solver_time_s': round(total_st, 2),
        'evaluations': max(total_paths, n_ob),
        'distinct_nontrivial': nontrivial,
        'rule': 'one case = one obligation (real functions run symbolically over all inputs within its bounds); '
                'non-trivial = confirmed over all paths with a refuted reachability twin and >= 2 paths explored; '
                'evaluations = symbolic paths explored by the solver-backed engine',
        'samples': samples,
        'trusted_base': getattr(mod, 'TRUSTED', []) + ['CrossHair 0.0.110 library models', 'z3 ' + _z3v()],
        'exhaustive': False,
    }
    if hasattr(mod, 'extra_coverage'):
        try:
            cov.update(mod.extra_coverage(results))
        except Exception as e:  # pragma: no cover
            cov['extra_coverage_error'] = repr(e)
    ev = {'property_id': pid, 'tier': tier, 'seed': int(seed), 'level': level, 'coverage': cov,
          'assumptions': getattr(mod, 'ASSUMPTIONS', []), 'wall_s': wall, 'violations': len(violations)}
    evdir = os.environ.get('VERIF_EVIDENCE_DIR') or os.path.join(ROOT, 'evidence')   # seed evaluation on a scratch copy writes elsewhere
    os.makedirs(evdir, exist_ok=True)
    if not only:
        with open(os.path.join(evdir, pid + '.json'), 'w') as f:
            json.dump(ev, f, indent=1)
        os.makedirs(os.path.join(evdir, 'by_tier'), exist_ok=True)          # the last run of EACH tier is kept as well
        with open(os.path.join(evdir, 'by_tier', f'{pid}.{tier}.json'), 'w') as f:
            json.dump(ev, f, indent=1)

    for line in sorted(set(known_lines)):
        print(line)
    print(f'{pid} [{tier}] obligations={n_ob} discharged={discharged} inconclusive={inconclusive} '
          f'known={refuted_known} violations={len(violations)} harness_errors={len(harness_errors)} '
          f'paths={total_paths} solver_queries={total_q} solver_time={total_st:.1f}s wall={wall}s')
    if os.environ.get('VERIF_VERBOSE'):
        for s in samples:
            print('  ', s['id'], s['status'], s['verdict'], 'twin=' + str(s['twin']), 'paths=%s' % s['paths'], 'wall=%s' % s['wall_s'], s.get('note', ''))
    for o, path, rr in violations:
        print(f'VIOLATION property={pid} replay={path}')
        print(f'  obligation {o.id}: {(rr.get("detail") or rr.get("observed") or rr.get("exception") or "")}'[:800])
    if violations:
        return 1
    if harness_errors:
        for h in harness_errors:
            print('HARNESS-ERROR', h[:1500])
        return 2
    return 0


def _z3v():
    try:
        import z3
        return z3.get_version_string()
    except Exception:
        return '?'


def run_replay(pid, path):
    with open(path) as f:
        doc = json.load(f)
    mod_name = doc['module']
    sys.path.insert(0, ROOT)
    mod = importlib.import_module(mod_name)
    obs = {o.id: o for o in mod.obligations(doc['tier'], doc['seed'])}
    o = obs[doc['obligation']]
    _, rr = replay(mod_name, o, doc['tier'], doc['seed'], doc['args'], keep_path=path)
    print(json.dumps(rr, indent=1))
    if rr.get('reproduced'):
        print(f'VIOLATION property={pid} replay={path}')
        return 1
    return 0
